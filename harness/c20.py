"""C20 -- Temporal context of every event equals the set of processes ongoing at that time.

A case is a history: list of file rows [onset, [item, ...]] (onset in units of 1/8 s, or None for
an n/a onset in the malformed stream); item = [delay|None, kind, x, sp]:
  kind 'N' Onset of definition name x, 'F' Offset of name x, 'U' Duration group of x units,
  'P' plain annotation number x; sp selects the textual spelling (case of the Def name, inner group,
  tag order, unit spelling).  `mode` selects how the TabularInput is built (0 DataFrame + extra
  definitions, 1 DataFrame + JSON sidecar with a categorical column and the definitions, 2 as 1 but
  from a real .tsv file)."""
import io
import itertools
import json
import os
import random
import re
import shutil
from collections import Counter
from multiprocessing import Pool

from harness import common as C

PROP = "C20"
COQ_TARGETS = ["Props/C20.vo", "Extract/ExtractC20.vo"]
TRUSTED = [
    "model Model/Events.v is a hand transcription of EventManager.__init__/_create_event_list/"
    "_extract_temporal_events/_extract_duration_events/_extract_context, TemporalEvent.set_end/_split_group, "
    "df_util.split_delay_tags/filter_series_by_onset/_indexed_dict_from_onsets/_filter_by_index_list, "
    "BaseInput.needs_sorting and bisect.bisect_left over abstract histories (top-level groups as items, times as "
    "integers in 1/8 s, definition names as ids); tied by the correspondence run (onsets, event_list "
    "start/end/end_time/contents, base, contexts, hed_strings per row)",
    "the model follows the CURRENT /repo: DataFrame.sort_values(kind='stable') in sort_dataframe_by_onsets (fix commit "
    "29fcd01) is modelled as a stable insertion sort, unconvertible Delay groups stay in their row (ef31cc7, e4bce88), "
    "markers are recognised by short base tag also under a namespace (4d37e17); the "
    "order inside a time point is the file order (kept rows first, then the Delay-shifted groups in file order); "
    "event_list, base, contexts and hed_strings are compared as SEQUENCES",
    "parsing/assembly (HedString, find_top_level_tags, TabularInput/Sidecar assembly, shrink_defs) and "
    "HedTag.value_as_default_unit are trusted to deliver the top-level groups and exact dyadic values the "
    "generator wrote (they are other properties' subject; the expected length of a value with a unit comes from the "
    "conversion factors in the schema XML read with xml.etree (harness/schema_xml.py), independently of hed-python, and "
    "only spellings whose float product is exactly the dyadic length are emitted; a Delay whose unit has no conversion to seconds is not "
    "shifted and is an item without delay in the model); HedTagManager.get_hed_objs is checked on the "
    "implementation side only",
]
ASSUMPTIONS = [
    "times are dyadic (multiples of 1/8 s, unit spellings chosen so that the float product is exact); general "
    "IEEE onsets/durations are outside the model",
    "C20_context_time_iff states the context of a time point (first row with its onset) in terms of time; for the "
    "later rows of one time point the index characterisation C20_context_iff holds and C20_ghost_row_context shows "
    "that their context also lists processes starting at that very time (observation, not a time point of the "
    "property)",
    "consumer histories (unfold_context / HedTagManager.get_hed_objs with remove_types, in varying orders, on one "
    "manager) are checked on the implementation against a freshly built manager (testing); the Coq side proves the "
    "history theorem for an object-store model of _filter_hed (Model/EventQueries.v) whose filtering of one item is an "
    "abstract function",
    "a schema namespace ('ts:') and DataFrame row labels other than 0..n-1 are input dimensions of the harness only: "
    "the model's items are spelling-free (C20_relabel_instance is one kernel-evaluated instance), so the same model "
    "answer is required for them",
    "two Props statements hold by construction of the model and get their link to the code only from the "
    "correspondence run: C20_unordered_rejected (first test of event_manager; its converse C20_rejected_iff_unordered is "
    "proved through every partial operation) and C20_remaining_kept (how o_hed is computed; C20_remaining_from_file is the "
    "file-level statement, proved)",
    "ghost rows (the second and later file rows of one time point, emptied by filter_series_by_onset) are not time "
    "points of the property: their event_list/base/hed_strings must be empty, their contexts are compared with the "
    "model only",
    "valid history = per time point each definition name occurs in at most one Onset/Offset group and every Offset "
    "closes an open process (what OnsetValidator enforces on the same merged rows)",
]

UNIT = 8
NAMES = {1: "Alpha", 2: "Beta", 3: "Gam/3", 4: "Gam/4", 5: "Fast", 6: "Tsk"}
DEF_TEXT = ("(Definition/Alpha, (Red)), (Definition/Beta, (Blue)), (Definition/Gam/#, (Label/#)), "
            "(Definition/Fast, (Condition-variable/Speed)), (Definition/Tsk, (Task, Blue))")
INNER = ["(Green)", "(Item-count/2,Square)", "(Sensory-event,(Yellow,Triangle))", "(Condition-variable/Cv3,Green)",
         "(Task,Red)"]
# remove_types arguments of the consumers (type tags whose annotations / definitions are filtered out)
RTS = [[], ["Condition-variable"], ["Task"], ["Condition-variable", "Task"]]
PLAIN = ["Red", "(Blue,Green)", "Sensory-event", "Def/Beta", "(Def/Alpha,Inset)", "Agent-action,Move",
         "(Label/x1,(Square))", "Item-count/3",
         "Condition-variable/Pace", "Def/Fast", "(Condition-variable/Cv2,Square)", "Task"]

_state = {}


def env(ns=""):
    """Schema and definitions (plain, or the single schema loaded under a namespace such as 'ts:'); loaded once in
    the parent before the Pool forks."""
    if ns not in _state:
        import warnings
        warnings.filterwarnings("ignore")
        from hed.schema import load_schema
        from hed.models.definition_dict import DefinitionDict
        path = os.path.join(C.REPO, "hed/schema/schema_data/HED8.3.0.xml")
        sch = load_schema(path, schema_namespace=ns) if ns else load_schema(path)
        _state[ns] = {"schema": sch, "defs": DefinitionDict(ns_text(DEF_TEXT, ns), sch)}
    return _state[ns]


def ns_text(text, ns):
    """Write every tag of a HED text with the schema namespace prefix."""
    if not ns:
        return text
    return re.sub(r"[^(),]+", lambda m: m.group(0) if not m.group(0).strip() else
                  m.group(0)[:len(m.group(0)) - len(m.group(0).lstrip())] + ns + m.group(0).lstrip(), text)


def un_ns(x, ns):
    """Observed text (or nested lists of texts) without the namespace prefix."""
    if not ns or x is None:
        return x
    if isinstance(x, str):
        return x.replace(ns, "")
    if isinstance(x, list):
        return [un_ns(y, ns) for y in x]
    return x


# ---------------------------------------------------------------- unit spellings from the schema file itself

def _unit_table():
    """{unit spelling: [(k, value text)]}: every way the bundled schema lets one write k/8 seconds, with the factor
    taken from the schema XML (xml.etree, independent of hed-python): SI symbol modifiers (da h k M G T P E Z Y d c m
    u n p f a z y) on 's', SI name modifiers on second/seconds in three letter cases, minute/hour/day and plurals.
    Only spellings whose float product value*factor is exactly k/8 s, k < 2^44, are kept."""
    from decimal import Decimal
    from fractions import Fraction
    from harness import schema_xml as X
    sch = X.load_file(os.path.join(C.REPO, "hed/schema/schema_data/HED8.3.0.xml"))

    def fac(attrs):
        txt = attrs["conversionFactor"][0]
        if "^" in txt:
            b, e = txt.split("^")
            return Fraction(b) ** int(e), float(b) ** int(e)
        return Fraction(Decimal(txt)), float(txt)
    units = {}     # spelling -> (exact factor, float factor)
    tu = [uc for uc in sch["unit_classes"] if uc["name"] == "timeUnits"][0]
    mods = [(m["name"], m["attrs"], fac(m["attrs"])) for m in sch["unit_modifiers"] if "conversionFactor" in m["attrs"]]
    for u in tu["units"]:
        if "conversionFactor" not in u["attrs"]:
            continue
        ue, uf = fac(u["attrs"])
        sym = "unitSymbol" in u["attrs"]
        forms = [u["name"]] if sym else [u["name"], u["name"] + "s"]
        pre = [("", Fraction(1), 1.0)]
        if "SIUnit" in u["attrs"]:
            pre += [(n, e, f) for n, a, (e, f) in mods if ("SIUnitSymbolModifier" in a) == sym]
        for pn, pe, pf in pre:
            for form in forms:
                sp = pn + form
                for v in ([sp] if sym else [sp, sp.capitalize(), sp.upper()]):
                    units[v] = (ue * pe, uf * pf)
    targets = sorted(set(list(range(1, 65)) + [8 * 10 ** e for e in range(0, 13)] + [480 * j for j in (1, 2, 3, 60, 1440)]
                         + [12 * 10 ** e for e in range(0, 12)]))
    table = {}
    for sp, (ex, fl) in units.items():
        for k in targets:
            v = Fraction(k, 8) / ex
            d = v.denominator
            while d % 2 == 0:
                d //= 2
            while d % 5 == 0:
                d //= 5
            if d != 1:
                continue
            txt = format(Decimal(v.numerator) / Decimal(v.denominator), "f")
            if len(txt) > 32 or Decimal(txt) != Decimal(v.numerator) / Decimal(v.denominator):
                continue
            if Fraction(float(txt) * fl) == Fraction(k, 8):
                table.setdefault(sp, []).append((k, txt))
    return table


UNIT_TABLE = None


def unit_table():
    global UNIT_TABLE
    if UNIT_TABLE is None:
        UNIT_TABLE = _unit_table()
    return UNIT_TABLE


# ---------------------------------------------------------------- rendering

def time_text(k, sp):
    """Spelling of k/8 seconds whose float conversion (value * factor) is exact."""
    sec = k / 8
    ch = [f"{sec} s"]
    if k % 8 == 0:
        ch += [f"{k // 8} s", f"{k // 8}"]
    ms = k * 125
    if float(ms) * 0.001 == sec:
        ch.append(f"{ms} ms")
    if k % 480 == 0 and k > 0:
        ch.append(f"{k // 480} minute")
    return ch[sp % len(ch)]


def name_text(x, sp):
    nm = NAMES[x]
    return nm.lower() if sp & 1 else nm


def parts_of(it):
    """(parts of the top-level group or None for a bare plain annotation, index of the temporal tag)."""
    dl, k, x, sp = it[:4]
    extra = it[4] if len(it) > 4 else {}
    dl_txt = (f"{extra['l'][1]} {extra['l'][0]}" if 'l' in extra else None)
    # a Delay whose unit has no conversion to seconds is NOT shifted: the group stays in its row (model: no delay)
    stuck = dl is None and (sp & 0xC0) == 0xC0
    stuck_txt = ["Delay/2 month", "Delay/1 year"][(sp >> 3) % 2]
    if k == "P":
        if dl is None and not stuck:
            return None, None
        txt = PLAIN[x % len(PLAIN)]
        inner = txt if (txt.startswith("(") and txt.count("(") == 1) else "(" + txt + ")"
        return [stuck_txt if stuck else f"Delay/{dl_txt or time_text(dl, sp >> 3)}", inner], None
    if k == "N":
        parts = ["Def/" + name_text(x, sp), "Onset"]
        if sp & 2:
            parts.append(INNER[(sp >> 5) % len(INNER)])
    elif k == "F":
        parts = ["Def/" + name_text(x, sp), "Offset"]
    else:
        dur = f"{extra['d'][1]} {extra['d'][0]}" if "d" in extra else time_text(x, sp)
        parts = [f"Duration/{dur}", INNER[(sp >> 5) % len(INNER)]]
    if dl is not None:
        parts.append(f"Delay/{dl_txt or time_text(dl, sp >> 3)}")
    elif stuck:
        parts.append(stuck_txt)
    r = (sp >> 2) % len(parts)
    parts = parts[r:] + parts[:r]
    tidx = [i for i, p in enumerate(parts) if p in ("Onset", "Offset") or p.startswith("Duration/")][0]
    return parts, tidx


def item_text(it):
    parts, _ = parts_of(it)
    if parts is None:
        return PLAIN[it[2] % len(PLAIN)]
    sep = ", " if it[3] & 16 else ","
    return "(" + sep.join(parts) + ")"


def contents_text(it):
    """str(TemporalEvent.contents) for an Onset / Duration item (statement: the group without its temporal tag;
    a bare definition anchor stands for a group that holds nothing else)."""
    parts, tidx = parts_of(it)
    rest = parts[:tidx] + parts[tidx + 1:]
    if it[1] == "N" and not (it[3] & 2):
        return "Def/" + name_text(it[2], it[3])
    return "(" + ",".join(rest) + ")"


def plain_text(it):
    return item_text(it).replace(", ", ",")


def split_top(s, sort=True):
    """Top-level comma split of a HED string -> list of trimmed non-empty pieces (sorted unless sort=False)."""
    out, depth, cur = [], 0, []
    for ch in s:
        if ch == "(":
            depth += 1
        elif ch == ")":
            depth -= 1
        if ch == "," and depth == 0:
            out.append("".join(cur).strip())
            cur = []
        else:
            cur.append(ch)
    out.append("".join(cur).strip())
    out = [x for x in out if x]
    return sorted(out) if sort else out


# ---------------------------------------------------------------- implementation side

def build_input(case, tmpdir=None):
    import pandas as pd
    from hed.models.tabular_input import TabularInput
    from hed.models.sidecar import Sidecar
    rows, mode, ns = case["rows"], case.get("mode", 0), case.get("ns", "")
    index = case.get("index")       # row labels of the DataFrame (None = the default 0..n-1)

    def item_text_ns(it):
        return ns_text(item_text(it), ns)
    onsets = [("n/a" if o is None else o / UNIT) for o, _ in rows]
    if any(o is None for o, _ in rows):
        onsets = [str(o) for o in onsets]
    if mode == 0:
        cells = [", ".join(item_text_ns(it) for it in its) if its else "n/a" for _, its in rows]
        if case.get("blank"):
            cells = ["" if c == "n/a" else c for c in cells]
        df = pd.DataFrame({"onset": onsets, "HED": cells}, index=index)
        return TabularInput(df), env(ns)["defs"]
    # sidecar: the last floor(n/2) items of each row come from a categorical column, the rest from the HED column
    # (the assembled cell is HED column first, then the sidecar columns)
    codes, code_col, hed_col = {}, [], []
    for _, its in rows:
        h = (len(its) + 1) // 2
        b, a = its[:h], its[h:]
        if a:
            txt = ", ".join(item_text_ns(it) for it in a)
            key = codes.setdefault(txt, f"c{len(codes)}")
            code_col.append(key)
        else:
            code_col.append("n/a")
        hed_col.append(", ".join(item_text_ns(it) for it in b) if b else "n/a")
    sd = {"code": {"HED": {v: k for k, v in codes.items()} or {"c0": ns_text("Red", ns)}},
          "defs": {"HED": {"d1": ns_text(DEF_TEXT, ns)}}}
    sidecar = Sidecar(io.StringIO(json.dumps(sd)))
    if mode == 2 and tmpdir:
        p = os.path.join(tmpdir, f"ev_{os.getpid()}_{case.get('n', 0)}.tsv")
        with open(p, "w") as f:
            f.write("onset\tcode\tHED\n")
            for o, c, h in zip(onsets, code_col, hed_col):
                f.write(f"{o}\t{c}\t{h}\n")
        ti = TabularInput(p, sidecar=sidecar)
        os.remove(p)
        return ti, None
    df = pd.DataFrame({"onset": onsets, "code": code_col, "HED": hed_col}, index=index)
    return TabularInput(df, sidecar=sidecar), None


def run_query(em, q):
    """One consumer query on an EventManager; q = ["U", rt] unfold_context(remove_types=RTS[rt]) |
    ["T", rt, include_context, replace_defs] HedTagManager(em, remove_types=RTS[rt]).get_hed_objs(...) |
    ["S"] str of the stored hed_strings / base / contexts."""
    from hed.tools.analysis.hed_tag_manager import HedTagManager
    try:
        if q[0] == "U":
            h, b, c = em.unfold_context(remove_types=list(RTS[q[1]]))
            return [[str(x) for x in h], [str(x) for x in b], [str(x) for x in c]]
        if q[0] == "T":
            tm = HedTagManager(em, remove_types=list(RTS[q[1]]))
            return [None if o is None else str(o) for o in tm.get_hed_objs(include_context=bool(q[2]),
                                                                             replace_defs=bool(q[3]))]
        return [[str(x) for x in em.hed_strings], list(em.base), list(em.contexts)]
    except Exception as e:  # noqa
        return {"exn": type(e).__name__, "msg": str(e)[:100]}


def to_units(x):
    if x is None:
        return None
    v = float(x) * UNIT
    return int(v) if v == int(v) else ("inexact", float(x))


def impl_one(case):
    from hed.tools.analysis.event_manager import EventManager
    from hed.tools.analysis.hed_tag_manager import HedTagManager
    from hed.errors.exceptions import HedFileError
    r = {}
    ns = case.get("ns", "")
    try:
        ti, defs = build_input(case, case.get("tmp"))
        em = EventManager(ti, env(ns)["schema"], extra_defs=defs)
    except HedFileError as e:
        return {"exn": "HedFileError", "code": str(e.code)}
    except Exception as e:  # noqa
        return {"exn": type(e).__name__, "msg": str(e)[:120]}
    try:
        r["onsets"] = [to_units(x) for x in em.onsets]
        r["events"] = [[[e.start_index, e.end_index, to_units(e.start_time), to_units(e.end_time), un_ns(str(e.contents), ns)]
                        for e in evs] for evs in em.event_list]
        r["base"] = un_ns(list(em.base), ns)
        r["contexts"] = un_ns(list(em.contexts), ns)
        r["hed"] = un_ns([str(h) for h in em.hed_strings], ns)
        tm = HedTagManager(em)
        r["objs"] = un_ns([str(o) if o is not None else "" for o in tm.get_hed_objs(include_context=True)], ns)
        r["objs_nc"] = un_ns([str(o) if o is not None else "" for o in tm.get_hed_objs(include_context=False)], ns)
        qs = case.get("queries")
        if qs:
            # a consumer history on THIS manager; the reference answer of each distinct query comes from a
            # manager built afresh for the same file and asked nothing else
            r["answers"] = [un_ns(run_query(em, q), ns) for q in qs]
            r["after"] = un_ns(run_query(em, ["S"]), ns)
            fresh = {}
            for q in qs:
                key = json.dumps(q)
                if key not in fresh:
                    ti2, defs2 = build_input(case, case.get("tmp"))
                    fresh[key] = un_ns(run_query(EventManager(ti2, env(ns)["schema"], extra_defs=defs2), q), ns)
            r["fresh"] = fresh
    except Exception as e:  # noqa
        return {"exn": "late:" + type(e).__name__, "msg": str(e)[:120]}
    return r


# ---------------------------------------------------------------- history analysis (python, from the statement)

def ordered(case):
    on = [o for o, _ in case["rows"]]
    return all(o is not None for o in on) and all(a <= b for a, b in zip(on, on[1:]))


def post_rows(case):
    """(time, [items]) pieces after Delay shifting: the kept part of every row and one piece per delayed group."""
    kept, app = [], []
    for o, its in case["rows"]:
        kept.append((o, [it for it in its if it[0] is None]))
        app += [(o + it[0], [it]) for it in its if it[0] is not None]
    return kept + app


def time_points(case):
    tp = {}
    for t, its in post_rows(case):
        tp.setdefault(t, []).extend(its)
    return sorted(tp.items())


def is_valid(case):
    if not ordered(case):
        return False
    open_ = set()
    for _, its in time_points(case):
        names = [it[2] for it in its if it[1] in "NF"]
        if len(names) != len(set(names)):
            return False
        for it in its:
            if it[1] == "F":
                if it[2] not in open_:
                    return False
                open_.discard(it[2])
        for it in its:
            if it[1] == "N":
                open_.add(it[2])
    return True


def expected(case):
    """Per time point, straight from the statement: processes with (start time, end time or None=end of file)."""
    tps = time_points(case)
    times = [t for t, _ in tps]
    procs = []
    for ti, (t, its) in enumerate(tps):
        for it in its:
            if it[1] == "N":
                end = None
                for t2, its2 in tps[ti + 1:]:
                    if any(j[1] in "NF" and j[2] == it[2] for j in its2):
                        end = t2
                        break
                procs.append((t, end, None, contents_text(it)))
            elif it[1] == "U":
                lim = t + it[2]
                later = [t2 for t2 in times if t2 >= lim]
                procs.append((t, later[0] if later else None, lim, contents_text(it)))
    return tps, procs


def history_oracle(case, r):
    """'The remaining annotation of each point is kept': whatever consumers asked before, every answer equals the
    answer of a freshly built manager, and the manager's stored annotations are those it had after construction."""
    bad = []
    if "answers" not in r:
        return bad
    for k, (q, a) in enumerate(zip(case["queries"], r["answers"])):
        f = r["fresh"][json.dumps(q)]
        if a != f:
            where = ""
            if isinstance(a, list) and isinstance(f, list):
                where = next((f" first difference: got={x!r} fresh={y!r}" for x, y in zip(a, f) if x != y), "")
            bad.append(("annotation-kept-across-queries",
                        f"step {k} query {q} after {case['queries'][:k]} differs from a fresh manager;{where}"[:600]))
            break
    snap = [r["hed"], r["base"], r["contexts"]]
    if r["after"] != snap:
        bad.append(("manager-data-unchanged-by-queries", f"after {case['queries']}: stored={r['after']} "
                                                          f"at construction={snap}"[:600]))
    return bad


def oracle(case, r, res):
    """Each clause of the statement checked on the implementation's behaviour."""
    rep = dict(case)
    rep.pop("tmp", None)
    if not ordered(case):
        if r.get("exn") != "HedFileError":
            res.report("unordered-rejected", rep, f"impl={ {k: r[k] for k in r if k in ('exn', 'msg', 'onsets')} }")
        return
    if not is_valid(case):
        for clause, detail in history_oracle(case, r):      # holds for every manager that could be built
            res.report(clause, rep, detail, fid=None)
        return
    if "exn" in r:
        res.report("valid-history-accepted", rep, f"{r['exn']} {r.get('msg', r.get('code'))}")
        return
    tps, procs = expected(case)
    on = r["onsets"]
    n = len(on)
    bad = []
    if any(not isinstance(x, int) for x in on) or any(a > b for a, b in zip(on, on[1:])):
        bad.append(("time-order", f"onsets={on}"))
    elif sorted(set(on)) != [t for t, _ in tps]:
        bad.append(("time-points", f"onsets={on} expected distinct times={[t for t, _ in tps]}"))
    else:
        first = {}
        for i, t in enumerate(on):
            first.setdefault(t, i)

        def idx(t):
            return n if t is None else first[t]
        for t, its in tps:
            i = first[t]
            here = [p for p in procs if p[0] == t]
            exp_ev = sorted(([i, idx(p[1]), p[0], p[2] if p[2] is not None else (p[1]), p[3]] for p in here), key=repr)
            got_ev = sorted(([e[0], e[1], e[2], e[3], e[4]] for e in r["events"][i]), key=repr)
            # end_time of an Onset process: the time of its closing marker, None at end of file
            if exp_ev != got_ev:
                bad.append(("started-processes", f"time {t} row {i}: impl={got_ev} expected={exp_ev}"))
            exp_base = sorted(p[3] for p in here)
            if sorted(split_top(r["base"][i])) != sorted(sum((split_top(x) for x in exp_base), [])):
                bad.append(("listed-at-start", f"time {t} row {i}: base={r['base'][i]!r} expected={exp_base}"))
            exp_ctx = sorted(p[3] for p in procs if p[0] < t and (p[1] is None or t < p[1]))
            if sorted(split_top(r["contexts"][i])) != sorted(sum((split_top(x) for x in exp_ctx), [])):
                bad.append(("context-is-ongoing", f"time {t} row {i}: contexts={r['contexts'][i]!r} expected={exp_ctx}"))
            exp_hed = sorted(sum((split_top(plain_text(it)) for it in its if it[1] == "P"), []))
            if split_top(r["hed"][i]) != exp_hed:
                bad.append(("remaining-annotation", f"time {t} row {i}: hed={r['hed'][i]!r} expected={exp_hed}"))
            # tag manager: annotation + started processes [+ (Event-context,(ongoing))]
            pieces = exp_hed + sorted(sum((split_top(x) for x in exp_base), []))
            if split_top(r["objs_nc"][i]) != sorted(pieces):
                bad.append(("tag-manager", f"time {t} row {i}: obj={r['objs_nc'][i]!r} expected={sorted(pieces)}"))
            ctx_groups = [x for x in split_top(r["objs"][i]) if x.startswith("(Event-context,")]
            if exp_ctx:
                want = sorted(sum((split_top(x) for x in exp_ctx), []))
                ok = len(ctx_groups) == 1 and split_top(ctx_groups[0][len("(Event-context,("):-2]) == want
            else:
                ok = not ctx_groups
            if not ok:
                bad.append(("tag-manager-context", f"time {t} row {i}: obj={r['objs'][i]!r} expected ctx={exp_ctx}"))
        for i, t in enumerate(on):
            if first[t] != i and (r["events"][i] or r["base"][i] or r["hed"][i]):
                bad.append(("one-time-point", f"row {i} shares onset {t} but is not empty"))
    bad = bad[:3] + history_oracle(case, r)
    for clause, detail in bad[:4]:
        res.report(clause, rep, detail, fid=None)


# ---------------------------------------------------------------- model side

def case_sx(case):
    ident = itertools.count(1)
    ids, rows = {}, []
    for o, its in case["rows"]:
        l = []
        for it in its:
            i = next(ident)
            ids[i] = it
            l.append(["-" if it[0] is None else it[0], it[1], it[2] if it[1] != "P" else 0, i])
        rows.append([o, l])
    return C.to_sx(rows), ids


def compare(case, r, m, ids):
    """Differences between model output m and implementation behaviour r (canonicalised)."""
    if m[0] == "exn":
        if r.get("exn") != m[1]:
            return [f"model raises {m[1]}, impl={r.get('exn', 'ok')} {r.get('msg', '')}"]
        return []
    if m[0] != "ok":
        return [f"model driver: {m}"]
    if "exn" in r:
        return [f"impl raises {r['exn']} {r.get('msg', '')}, model ok"]
    diffs = []
    m_on = [int(x[0]) for x in m[1]]
    if m_on != r["onsets"]:
        return [f"onsets impl={r['onsets']} model={m_on}"]
    # since /repo sorts with a stable sort the order inside a time point is the file order: compare as sequences
    for i in range(len(m_on)):
        mev = [[int(e[0]), None if e[1] == "-" else int(e[1]), None if e[2] == "-" else int(e[2]),
                contents_text(ids[int(e[3])])] for e in m[2][i]]
        iev = [[e[0], e[1], e[3], e[4]] for e in r["events"][i]]
        if mev != iev:
            diffs.append(f"event_list[{i}] impl={iev} model={mev}")
        for key, col in (("base", 3), ("contexts", 4)):
            mm = sum((split_top(contents_text(ids[int(x[1])]), sort=False) for x in m[col][i]), [])
            if mm != split_top(r[key][i], sort=False):
                diffs.append(f"{key}[{i}] impl={r[key][i]!r} model={mm}")
        mh = sum((split_top(plain_text(ids[int(x)]), sort=False) for x in m[5][i]), [])
        if mh != split_top(r["hed"][i], sort=False):
            diffs.append(f"hed_strings[{i}] impl={r['hed'][i]!r} model={mh}")
    return diffs[:4]


def work_one(arg):
    case, m, ids = arg
    r = impl_one(case)
    probe = C.Result(PROP)
    probe.known_ids = {}
    oracle(case, r, probe)
    h = ["valid" if is_valid(case) else ("unordered" if not ordered(case) else "invalid-ordered"),
         "rows=%s" % min(len(case["rows"]) // 5 * 5, 40)]
    if any(it[0] is not None for _, its in case["rows"] for it in its):
        h.append("with-delay")
    if case.get("index") is not None:
        h.append("df-index-not-default")
    if case.get("ns"):
        h.append("namespaced-schema")
    if any(len(it) > 4 for _, its in case["rows"] for it in its):
        h.append("schema-unit-spelling")
    if case.get("queries"):
        h.append("consumer-history")
    if "exn" in r:
        h.append("impl-" + r["exn"])
    out = {"bad": [(v["clause"], v["detail"]) for v in probe.violations], "hist": h, "diffs": None, "skipped": 0}
    if m is not None:
        out["diffs"] = compare(case, r, m, ids)
    return out


# ---------------------------------------------------------------- generators

def mk(rows, mode=0, **kw):
    d = {"rows": [[o, [list(it) for it in its]] for o, its in rows], "mode": mode}
    d.update(kw)
    return d


CORPUS = [
    # the statement's boundary cases
    mk([[0, [[None, "N", 1, 0], [None, "P", 0, 0]]], [8, [[None, "U", 16, 0], [None, "P", 1, 0]]],
        [16, [[None, "F", 1, 0]]], [24, [[8, "N", 2, 0]]], [32, [[None, "P", 2, 0]]]]),
    # restart of an open process, equal-onset rows
    mk([[0, [[None, "N", 1, 2]]], [8, [[None, "N", 2, 0]]], [8, [[None, "N", 1, 6]]], [24, [[None, "F", 2, 1]]],
        [32, [[None, "P", 0, 0]]]]),
    # duration ending exactly at a time point / between time points / beyond the last row
    mk([[0, [[None, "U", 8, 0]]], [8, [[None, "U", 12, 1]]], [16, [[None, "U", 80, 2]]], [24, []], [32, []]]),
    # Delay-shifted onset landing between rows and on an existing row, delayed offset, delayed duration
    mk([[0, [[12, "N", 1, 0], [None, "P", 0, 0]]], [8, [[8, "N", 2, 2]]], [16, [[16, "F", 1, 0]]],
        [24, [[4, "U", 8, 0]]], [40, [[None, "F", 2, 0]]]], mode=1),
    mk([[0, [[None, "N", 3, 0]]], [8, [[None, "N", 4, 0]]], [16, [[None, "N", 3, 1]]], [16, []], [24, [[None, "F", 4, 1]]]],
       mode=2),
    # Onset and Offset of one name inside one row (not a valid file; model correspondence only)
    mk([[0, [[None, "N", 1, 0], [None, "F", 1, 0]]], [8, [[None, "F", 1, 0], [None, "N", 1, 0]]], [16, []]]),
    # malformed
    mk([[0, []], [16, [[None, "P", 0, 0]]], [8, []]]),
    mk([[0, [[None, "F", 1, 0]]], [8, []]]),
    mk([[0, []], [None, [[None, "P", 0, 0]]], [8, []]]),
    mk([[0, [[None, "U", 480, 4]]], [480, [[None, "P", 3, 0]]], [488, []]]),
    # one row with several Delay groups: Green, (Def/Alpha,Onset,Delay/1.5 s), (Delay/2.5 s,Duration/1 s,(..)), ...
    mk([[0, [[None, "P", 0, 0], [12, "N", 1, 0], [20, "U", 8, 4]]], [8, [[None, "P", 0, 0]]], [40, [[None, "P", 1, 0]]]]),
    mk([[0, [[8, "N", 1, 2], [8, "N", 2, 0], [16, "F", 1, 0], [24, "P", 1, 0], [4, "U", 8, 0]]], [32, []]], mode=1),
    mk([[0, [[8, "N", 1, 0]]], [0, [[8, "U", 4, 0], [12, "P", 0, 0]]], [4, [[4, "N", 2, 0], [12, "F", 1, 0]]], [8, []]],
       mode=2),
    # an open process at the end of a file that gained Delay rows (end = number of rows AFTER shifting)
    mk([[0, [[None, "N", 1, 0], [4, "P", 0, 0], [12, "P", 1, 0]]], [8, [[4, "N", 2, 0]]], [16, []]]),
    # Delay with a unit that has no conversion to seconds: the group stays in its row
    mk([[0, [[None, "N", 1, 0xC2], [None, "P", 0, 0xC0]]], [8, [[None, "U", 8, 0xC8]]], [16, [[None, "F", 1, 0xC0]]]]),
    # equal-onset rows that mark the same name (not a valid file): stable order = file order
    mk([[0, [[None, "N", 1, 0]]], [0, [[None, "F", 1, 0]]], [0, [[None, "N", 1, 2]]], [8, [[None, "F", 1, 0]]]]),
    mk([[0, [[8, "N", 1, 0]]], [8, [[None, "F", 1, 0]]], [16, []]]),
    # DataFrame row labels that are not 0..n-1 (dropped rows, offset, shuffled), with Delay groups
    mk([[0, [[None, "P", 0, 0]]], [8, [[None, "P", 1, 0], [4, "N", 1, 0]]], [16, [[None, "P", 2, 0]]],
        [24, [[2, "U", 8, 0]]], [32, []], [40, []]], index=[0, 2, 3, 4, 5, 6]),
    mk([[0, [[12, "N", 1, 0]]], [8, [[8, "N", 2, 2]]], [16, [[16, "F", 1, 0]]], [40, [[None, "F", 2, 0]]]],
       mode=1, index=[3, 1, 0, 2]),
    # unit spellings: SI symbol modifiers in both letter cases, names, plurals (factor from the schema file)
    mk([[0, [[None, "U", 8 * 10 ** 7, 0, {"d": ["Ms", "1"]}], [None, "U", 8, 0, {"d": ["ms", "1000"]}]]],
        [8, [[None, "U", 8 * 10 ** 4, 0, {"d": ["Ps", "0.000000000001"]}]]], [16, []], [24, []]]),
    mk([[0, [[24, "N", 1, 0, {"l": ["ks", "0.003"]}], [None, "U", 16, 0, {"d": ["Seconds", "2"]}]]],
        [8, [[None, "U", 480, 0, {"d": ["minutes", "1"]}]]], [16, []], [32, [[None, "F", 1, 0]]]]),
    # the single schema loaded under a namespace, every tag written with the prefix
    mk([[0, [[None, "N", 1, 0], [None, "P", 0, 0]]], [8, [[None, "U", 16, 0], [8, "N", 2, 2]]],
        [16, [[None, "F", 1, 0]]], [24, [[None, "P", 8, 0]]]], ns="ts:"),
    mk([[0, [[None, "N", 5, 2]]], [8, [[None, "P", 9, 0]]], [16, [[None, "F", 5, 0]]]], mode=1, ns="ts:",
       queries=[["U", 1], ["U", 0], ["T", 0, 1, 0]]),
    # consumer histories on one manager: filtered before plain, plain before filtered, repeated
    mk([[0, [[None, "P", 0, 0], [None, "N", 5, 0]]], [8, [[None, "P", 8, 0], [None, "P", 10, 0]]],
        [16, [[None, "P", 9, 0], [None, "N", 6, 0x62]]], [24, [[None, "F", 5, 0], [None, "U", 16, 0x80]]],
        [32, [[None, "P", 11, 0]]]],
       queries=[["T", 1, 1, 0], ["U", 0], ["T", 0, 1, 0], ["U", 3], ["U", 0], ["S"]]),
    mk([[0, [[None, "P", 8, 0], [None, "N", 1, 0]]], [8, [[None, "P", 9, 0]]], [16, [[None, "F", 1, 0], [None, "P", 11, 0]]]],
       mode=1, queries=[["U", 0], ["U", 1], ["U", 1], ["T", 2, 0, 1], ["T", 0, 1, 1], ["U", 0]]),
]


def gen_valid(rng, size, mode=None, maxgap=3, names=(1, 2, 3, 4, 5, 6), p_delay=0.25, samepoint=False, hub=False, p_units=0.3):
    """A valid history built on the time axis, then distributed over file rows."""
    ntp = rng.randint(1, size)
    t, times = rng.choice([0, 0, 4, 8]), []
    for _ in range(ntp):
        times.append(t)
        t += rng.choice([1, 2, 4, 8, 8, 8 * maxgap, 3, 16]) if rng.random() > 0.04 else 8 * 10 ** rng.randint(1, 7)
    virtual = {t for t in times[1:] if rng.random() < 0.12}   # time points reached only by Delay-shifted groups
    open_ = set()
    placed = []        # (time, item without delay)
    for t in times:
        used = set()
        for _ in range(rng.choice([0, 1, 1, 1, 2, 2, 3])):
            x = rng.random()
            sp = rng.randrange(256)
            if x < 0.3:
                a = rng.choice(names)
                if a in used:
                    continue
                used.add(a)
                placed.append((t, [None, "N", a, sp]))
                open_.add(a)
            elif x < 0.5:
                cand = sorted(open_ - used)
                if not cand:
                    continue
                a = rng.choice(cand)
                used.add(a)
                open_.discard(a)
                placed.append((t, [None, "F", a, sp]))
            elif x < 0.75:
                d = rng.choice([1, 2, 4, 8, 8, 12, 16, 24, 40, 8 * maxgap, rng.randint(1, 64)])
                it = [None, "U", d, sp]
                if rng.random() < p_units:       # any unit spelling the schema allows for a time value
                    by_k()
                    u = rng.choice(UNITS)
                    d, txt = rng.choice(unit_table()[u])
                    it = [None, "U", d, sp, {"d": [u, txt]}]
                placed.append((t, it))
            else:
                placed.append((t, [None, "P", rng.randrange(len(PLAIN)), sp]))
        if samepoint and t not in virtual and rng.random() < 0.3:
            a = rng.choice(names)
            if a not in used:
                used.add(a)
                ks = [rng.choice("NF") for _ in range(rng.choice([2, 2, 3]))]
                if a not in open_ and ks[0] == "F":
                    ks[0] = "N"
                for k in ks:
                    placed.append((t, [None, k, a, rng.randrange(256)]))
                    (open_.add if k == "N" else open_.discard)(a)
    # rows: every time point has 1..3 file rows with some probability; items may be written in an earlier row
    row_times = []
    for t in times:
        if t not in virtual:
            row_times += [t] * rng.choice([1, 1, 1, 1, 2, 2, 3])
    rows = [[t, []] for t in row_times]
    for t, it in placed:
        earlier = [i for i, (rt, _) in enumerate(rows) if rt < t]
        if earlier and (t in virtual or rng.random() < p_delay):
            # hub: most delayed groups are written in the FIRST row, so one row holds several Delay groups
            i = earlier[0] if (hub and rng.random() < 0.8) else rng.choice(earlier)
            it[0] = t - rows[i][0]
            if rng.random() < p_units and it[0] in by_k():
                extra = dict(it[4]) if len(it) > 4 else {}
                extra["l"] = list(rng.choice(by_k()[it[0]]))
                it = it[:4] + [extra]
            rows[i][1].append(it)
        else:
            cands = [i for i, (rt, _) in enumerate(rows) if rt == t]
            rows[rng.choice(cands)][1].append(it)
    if mode is None:
        mode = rng.choice([0, 0, 0, 1, 1, 2])
    kw = {}
    if mode != 2 and rng.random() < 0.3:
        # the DataFrame reaches TabularInput with row labels other than 0..n-1 (rows dropped / offset / shuffled)
        n = len(rows)
        kind = rng.randrange(4)
        if kind == 0:
            kw["index"] = sorted(rng.sample(range(3 * n + 2), n))
        elif kind == 1:
            off = rng.choice([1, 5, 100, -3])
            kw["index"] = [off + i for i in range(n)]
        elif kind == 2:
            kw["index"] = rng.sample(range(n), n)
        else:
            kw["index"] = rng.sample(range(-n, 2 * n), n)
    if rng.random() < 0.2:
        kw["ns"] = "ts:"                 # the single schema is loaded under a namespace, all tags carry the prefix
    return mk(rows, mode=mode, blank=rng.random() < 0.2, **kw)


UNITS = None
_BY_K = None


def by_k():
    """{k: [(unit spelling, value text)]} -- the unit table by length."""
    global _BY_K, UNITS
    if _BY_K is None:
        _BY_K = {}
        for u, l in unit_table().items():
            for k, txt in l:
                _BY_K.setdefault(k, []).append((u, txt))
        UNITS = sorted(unit_table())
    return _BY_K


def gen_queries(rng):
    """A consumer history on one manager: filtered and plain reports in varying orders, with repeats."""
    def one():
        x = rng.random()
        rt = rng.choice([0, 1, 1, 2, 3, 3])
        if x < 0.4:
            return ["U", rt]
        if x < 0.85:
            return ["T", rt, rng.randrange(2), rng.randrange(2)]
        return ["S"]
    qs = [one() for _ in range(rng.choice([2, 3, 3, 4, 5]))]
    if rng.random() < 0.5:
        qs.append(rng.choice([["U", 0], ["T", 0, 1, 0], qs[0]]))     # a plain or repeated report at the end
    return qs


def gen_malformed(rng, size):
    c = gen_valid(rng, size, p_delay=0.15)
    rows = c["rows"]
    x = rng.random()
    if x < 0.4 and len(rows) >= 2:          # onsets not non-decreasing
        i = rng.randrange(len(rows) - 1)
        j = rng.randrange(i + 1, len(rows))
        if rows[i][0] == rows[j][0]:
            rows[j][0] = rows[i][0] - rng.choice([1, 8])
        else:
            rows[i][0], rows[j][0] = rows[j][0], rows[i][0]
        c["kind"] = "unordered"
    elif x < 0.55 and rows:                  # n/a onset
        rows[rng.randrange(len(rows))][0] = None
        c["kind"] = "nan-onset"
        c["mode"] = 0
    else:                                    # Offset of a name that is not open (never opened before)
        i = rng.randrange(len(rows))
        rows[i][1].insert(rng.randint(0, len(rows[i][1])), [None, "F", rng.choice([1, 2, 3, 4]), rng.randrange(256)])
        c["kind"] = "stray-offset"
    return c


ALPHA = [[None, "N", 1, 0], [None, "F", 1, 0], [None, "N", 2, 2], [None, "F", 2, 0], [None, "U", 8, 0],
         [None, "U", 12, 0], [None, "P", 0, 0], [8, "N", 1, 0], [8, "F", 1, 0], [4, "U", 8, 0], [8, "P", 0, 0]]


def gen_exhaustive(tier):
    """All histories over ALPHA: 2 rows with <=2 items each, 3 rows with <=1 item each (quick);
    thorough adds 3 rows with <=2 items in the first two rows and 4 rows with <=1 item."""
    cells1 = [[]] + [[a] for a in ALPHA]
    cells2 = cells1 + [[a, b] for a in ALPHA for b in ALPHA]
    out = []
    for gap in (0, 8):
        for c0 in cells2:
            for c1 in cells2:
                out.append(mk([[0, c0], [gap, c1]]))
    for g1 in (0, 4, 8):
        for g2 in (0, 4, 8):
            for c0 in cells1:
                for c1 in cells1:
                    for c2 in cells1:
                        out.append(mk([[0, c0], [g1, c1], [g1 + g2, c2]]))
    if tier != "quick":
        for g1, g2, g3 in itertools.product((0, 8), (4,), (0, 8)):
            for cs in itertools.product(cells1, repeat=4):
                out.append(mk([[0, cs[0]], [g1, cs[1]], [g1 + g2, cs[2]], [g1 + g2 + g3, cs[3]]]))
    return out


def nontrivial(case):
    its = [it for _, r in case["rows"] for it in r]
    return any(it[1] in "NU" for it in its) and len(case["rows"]) >= 2


def run(tier, seed, res, model_ok=True, proof_ok=True):
    rng = random.Random(seed)
    quick = tier == "quick"
    by_k()
    cases = [dict(c) for c in CORPUS]
    exh = gen_exhaustive(tier)
    n_exh_full = len(exh)
    if quick:
        # the quick tier draws a deterministic sample of the exhaustive families from the seed; thorough runs them all
        exh = rng.sample(exh, 6500 if proof_ok else 25000)
    n_exh = len(exh)
    cases += exh
    nval = 4500 if quick else 40000
    if not proof_ok:
        nval *= 3
    for i in range(nval):
        size = rng.choice([2, 3, 4, 5, 6, 8, 12]) if i % 10 else rng.choice([20, 40, 80] if not quick else [20, 30, 50])
        cases.append(gen_valid(rng, size, samepoint=(i % 7 == 0), hub=(i % 4 == 1),
                               p_delay=(0.6 if i % 4 == 1 else 0.25)))
        if i % 5 == 2:
            cases[-1]["queries"] = gen_queries(rng)
    for i in range(nval // 6):
        cases.append(gen_malformed(rng, rng.choice([2, 3, 4, 6, 10])))
    # VERIF_C20_FRACTION=0.1 keeps the corpus and every 10th generated case (a subset of the full run; used for
    # quick mutation self-tests on a loaded machine)
    frac = float(os.environ.get("VERIF_C20_FRACTION", "1") or 1)
    if frac < 1:
        k = max(1, round(1 / frac))
        cases = cases[:len(CORPUS)] + cases[len(CORPUS)::k]
        n_exh = f"{n_exh} (subsampled 1/{k})"
    # model first (fast), then implementation + oracle + comparison in the worker pool
    mods = [None] * len(cases)
    idmaps = [None] * len(cases)
    if model_ok:
        exe = C.build_driver("c20")
        idx = [i for i, c in enumerate(cases) if all(o is not None for o, _ in c["rows"])]
        sxs = [case_sx(cases[i]) for i in idx]
        out = C.run_driver(exe, [s for s, _ in sxs])
        for i, (s, ids), m in zip(idx, sxs, out):
            mods[i], idmaps[i] = m, ids
    tmp = C.scratch_dir("hedverif-c20-")
    try:
        for n, c in enumerate(cases):
            c["n"] = n
            c["tmp"] = tmp
        env()      # import hed and load the schemas once, before the Pool forks
        env("ts:")
        with Pool(int(C.JOBS)) as pool:
            outs = pool.map(work_one, list(zip(cases, mods, idmaps)), chunksize=100)
    finally:
        shutil.rmtree(tmp, ignore_errors=True)
    for c in cases:
        c.pop("tmp", None)

    hist = Counter()
    disagreements = skipped = compared = 0
    for c, o in zip(cases, outs):
        for clause, detail in o["bad"]:
            res.report(clause, c, detail, fid=None)
        for k in o["hist"]:
            hist[k] += 1
        if o["diffs"] is None:
            skipped += 1          # n/a onsets: no integer history for the model
            continue
        compared += 1
        if o["diffs"]:
            disagreements += 1
            if not o["bad"]:
                res.violation("correspondence", c, "; ".join(o["diffs"]), no_input=True)
    hist["not-modelled(n/a onset)"] = skipped
    distinct = len({json.dumps(c["rows"]) for c in cases if nontrivial(c) and is_valid(c)})
    return {
        "evaluations": len(cases),
        "distinct_nontrivial": distinct,
        "rule": f"corpus + {'a seeded sample of ' if quick else 'ALL '}{n_exh} of the {n_exh_full} histories over an 11-item alphabet (Onset/Offset of two names, two Durations, "
                "plain, Delay-shifted Onset/Offset/Duration/plain) with 2 rows x <=2 items and 3 rows x <=1 item and "
                "onset gaps {0,1/2 s,1 s}" + ("" if quick else " and 4 rows x <=1 item") +
                f" + {nval} random valid histories (1-80 time points, 4 names, equal-onset rows, 25% delayed groups, "
                f"every 4th with 60% delayed groups written mostly in one row, unconvertible Delay units, 3 input modes, "
                f"30% of Duration/Delay values in one of {len(UNITS)} unit spellings of the schema file (all SI prefixes, "
                f"names, plurals, letter cases), 30% of the DataFrames with non-default row labels, 20% under a schema "
                f"namespace, 20% with a consumer history) + {nval // 6} malformed (unordered, n/a onset, stray Offset); non-trivial = valid, "
                ">= 2 rows and at least one Onset or Duration process",
        "samples": [cases[0]["rows"], cases[min(len(CORPUS) + 4321, len(cases) - 1)]["rows"],
                    cases[len(cases) * 9 // 10]["rows"], cases[-1]["rows"]],
        "exhaustive": frac >= 1 and not quick,
        "exhaustive_scope": "bounded enumeration named in `rule`; the theorems are unbounded",
        "disagreements_checked": disagreements,
        "correspondence_cases": compared,
        "histogram": dict(hist),
    }


def replay(payload):
    case = payload.get("case")
    if not case or "rows" not in case:
        print("no concrete input in replay:", str(payload.get("detail", ""))[:500])
        return 1
    tmp = C.scratch_dir("hedverif-c20-")
    try:
        case = dict(case)
        case["tmp"] = tmp
        r = impl_one(case)
    finally:
        shutil.rmtree(tmp, ignore_errors=True)
    case.pop("tmp", None)
    print("rows:")
    for o, its in case["rows"]:
        print("  ", None if o is None else o / UNIT, "|", ", ".join(item_text(it) for it in its) or "n/a")
    print("impl:", json.dumps(r, indent=1)[:3000])
    res = C.Result(PROP)
    res.known_ids = {}
    oracle(case, r, res)
    for v in res.violations:
        print("FAILS:", v["clause"], v["detail"])
    return 1 if res.violations else 0
