"""C07 -- File-level validation equals row-by-row string validation, with true locations.

Pipeline per generated case (an events table, its sidecar and a row permutation):
  stage 1 (pool)  implementation: TabularInput(...).validate(schema) for the table and the permuted table;
                  abstraction of the table for the model (cell ids, skip flags, Delay spellings, onsets);
  driver          extracted Coq model (Model/FileValidate.v) instantiated symbolically;
  stage 2 (pool)  expansion of the model's symbolic issues with the implementation's OWN string-level results
                  (run_basic_checks / run_full_string_checks / validate_temporal_relations), correspondence diff,
                  and the implementation-side oracle for every clause of the statement.
"""
import io
import itertools
import json
import os
import random
import shutil
import traceback
import warnings
from collections import Counter
from fractions import Fraction
from multiprocessing import Pool

from harness import common as C

PROP = "C07"
COQ_TARGETS = ["Props/C07.vo", "Extract/ExtractC07.vo"]
TRUSTED = [
    "Model/FileValidate.v is a hand transcription of SpreadsheetValidator.validate/_run_checks/_run_onset_checks/"
    "_validate_column_structure, BaseInput.needs_sorting, the index alignment of _handle_curly_braces_refs on a sorted "
    "frame, df_util.sort_dataframe_by_onsets/split_delay_tags/filter_series_by_onset, HedTag.value_as_default_unit (as a "
    "partial function of the unit spelling class) and error_reporter.sort_issues; tied by the correspondence run on "
    "(code, severity, row, column) multisets and on the exception type",
    "the string-level validator (run_basic_checks, run_full_string_checks, check_for_banned_tags, "
    "validate_temporal_relations, bool(HedString)) is NOT modelled (the implementation-side oracle, however, does its "
    "own Onset/Offset/Inset bookkeeping from the statement, class SpecOnsets, so faults of the shared OnsetValidator "
    "are seen): it is a Section variable of every theorem and is "
    "supplied by the implementation itself in the correspondence run",
    "abstraction done by the harness: cell text -> id, 'empty or n/a' flag, Delay unit spelling class from the schema's "
    "derivative_units tables, times as integers in microseconds, numbers that are not finite as floats ('inf', '1e999', 'Delay/1e400 s') as +-4e18 us with Delay "
    "amounts adjusted so that sums saturate as float arithmetic does (generated onsets are dyadic or decimal strings with up "
    "to 6 decimals read exactly with fractions.Fraction -- never through a narrow float --, sub-second Delay units "
    "are generated only where no near-collision can occur); assembled cell texts are taken from the implementation's "
    "dataframe_a on the unsorted table (assembly itself is property C06)",
    "pandas: sort_values(kind='quicksort') is modelled as a stable sort (numpy uses insertion sort below 17 elements; "
    "generated frames stay below that when keys tie); filter_series_by_onset's dict of equal onsets is modelled as "
    "maximal runs of a sorted series; the 1e-9 tolerance is modelled as equality on exact times",
]
ASSUMPTIONS = [
    "all theorems are relative to arbitrary TOTAL basic/full/banned/temporal/nonempty (the property is relative to "
    "string-level validation): C07_file_never_raises is about the file-level plumbing; an exception raised by string "
    "validation itself is outside the model and covered only by testing through the real validator (cell pools contain "
    "degenerate but readable texts: '()', '(),()', ',', blanks only, ...; reverting 3e47c8c is reported)",
    "C07_row_equals_string speaks about the strings the implementation validates (row minus movable Delay groups + each "
    "moved group); equality with the ASSEMBLED annotation is proved for rows without Delay text and otherwise only under "
    "the explicit hypothesis delay_split_neutral (a property of string validation), which the oracle tests by comparing "
    "with HedValidator.validate of the whole assembled row",
    "the correspondence runs the model with cf_fixed = true (the code after fix commit f83491d); "
    "VERIF_C07_FIXED=1 (default) runs the model of the code with fix commits ef31cc7, e4bce88, c357095 (cf_fix_none/value/mask = true); "
    "C07_file_never_raises_refuted (cf_fixed = false) is kept as the record of the repaired defect; likewise the "
    "index-label scrambling of curly-brace references (cf_has_refs = true, C07_labels_refuted) was repaired by fd59dc0 "
    "and the correspondence runs cf_has_refs = false",
    "C07_row_equals_string / shuffle theorems need: no curly-brace scrambling (holds for the code since fd59dc0) and "
    "effective times (onset + Delay) pairwise distinct (no same-time merging); the former 'all onsets numeric' hypothesis "
    "of C07_row_equals_string is gone with fix commit c357095; C07_shuffle_invariant (full, temporal issues included) speaks about "
    "files whose onsets are all numeric, as the property's clause does",
    "implementation-side oracle: testing on generated tables, bounded by the generators (histogram in evidence)",
    "same-time merging is excluded from the row/shuffle theorems by hypothesis (distinct effective times); the case 'a "
    "Delay group lands exactly on the onset of one other file row' is checked by the oracle only: that row must carry "
    "exactly the codes of string validation of its annotation plus the landed groups (generated on purpose)",
    "tested only (not representable in the model): the kind of column labels (text vs. the numbers of a headerless "
    "file; sort_issues TypeError repaired by 2e53521) and the case-insensitive matching of definition names by the "
    "temporal bookkeeping (a Section variable of the theorems; the oracle has its own bookkeeping, SpecOnsets)",
    "C07_history_* are theorems about the operation-sequence model (the object's state is its table); that the real "
    "object has no other state that validation reads is tied by the history stream of the correspondence run (testing)",
]

ADJ = 2   # 1-based rows + header line
# /repo carries the fix commit f83491d (unit names looked up case-insensitively in get_conversion_factor):
# the model is run with cf_fixed = true, and a TypeError for a case-variant spelling is a VIOLATION again.
UNIT_FIXED = True
# fix commit ef31cc7, fix commit e4bce88, fix commit c357095 (split_delay_tags leaves a Delay group in place when it cannot be moved; the onset mask of
# _run_checks is indexed by row label).  VERIF_C07_FIXED=1 (default): the tree under test carries the three repairs, the
# correspondence uses the repaired model and the oracle demands the full statement; 0: the unrepaired behaviour
# (for an unpatched copy), with the three finding classes accepted as known findings.
FIXED = int(os.environ.get("VERIF_C07_FIXED", "1"))
# C07-F6 (open; repair proposed in /root/work/C07/fix-F6.diff): a cell that holds only blanks is neither skipped nor
# reported.  0 (default) = the code as it is in /repo: the class is accepted as known finding C07-F6;
# 1 = a tree carrying fix-F6: blank cells are empty cells (skip flag of the model input) and the class is a violation.
F6_FIXED = int(os.environ.get("VERIF_C07_F6_FIXED", "1"))   # fix commit 8227060 is in /repo
# C07-F7 (open; repair proposed in /root/work/C07/fix-F7.diff): a Delay group whose shifted time is NaN (onset -inf with a
# Delay value that overflows to +inf, or the reverse) is moved to a row without time and validated nowhere.
F7_FIXED = int(os.environ.get("VERIF_C07_F7_FIXED", "1"))   # fix commit 3db4aba is in /repo


def cell_is_empty(txt):
    """'not cell or cell == "n/a"' of _run_checks / combine_dataframe (with fix-F6: blanks only counts as empty)"""
    return (not (txt.strip(" ") if F6_FIXED else txt)) or txt == "n/a"
# /repo also carries fix commit fd59dc0 (_handle_curly_braces_refs assigns positionally): the assembled frame is no
# longer permuted against its index labels, so the model is run with cf_has_refs = false (no realign); the
# scrambling stays in the model behind cf_has_refs and in C07_labels_refuted as the record of the repaired defect.
REFS_SCRAMBLE = False
ERR = 1   # ErrorSeverity.ERROR
TEMPORAL_WORDS = ("onset", "offset", "inset")

SIDECAR_PLAIN = {
    "cat": {"HED": {"a": "Red", "b": "(Blue, Green)", "c": "Nonsense", "d": "(Def/MyDef, Onset)",
                    "e": "(Def/MyDef, Offset)", "f": "Item/Sound", "g": "Red,", "h": "(Delay/1 s, (Square))",
                    "i": "(Def/mydef, Offset)", "j": "(Def/MYDEF, Inset)"}},
    "val": {"HED": "Label/#"},
    "defs": {"HED": {"d1": "(Definition/MyDef, (Action))", "d2": "(Definition/Other/#, (Label/#))"}},
}
SIDECAR_REFS = {
    "cat": {"HED": {"a": "Red, {val}", "b": "(Blue, {val})", "c": "Nonsense, {val}", "d": "(Def/MyDef, Onset), {val}",
                    "e": "(Def/MyDef, Offset)", "f": "({val}, Item/Sound)", "g": "Red,", "h": "{val}, {val}",
                    "i": "(Def/mydef, Offset)", "j": "(Def/MYDEF, Inset), {val}"}},
    "val": {"HED": "Label/#"},
    "defs": {"HED": {"d1": "(Definition/MyDef, (Action))", "d2": "(Definition/Other/#, (Label/#))"}},
}
# sidecar with a reference to a column that does not exist (INVALID_COLUMN_REF, no row/column label)
SIDECAR_BADREF = {
    "cat": {"HED": {"a": "Red, {nosuch}", "b": "(Blue, Green)", "c": "Nonsense", "d": "(Def/MyDef, Onset)",
                    "e": "(Def/MyDef, Offset)", "f": "Item/Sound", "g": "Red,", "h": "Square",
                    "i": "(Def/mydef, Offset)", "j": "(Def/MYDEF, Inset)"}},
    "val": {"HED": "Label/#"},
    "defs": {"HED": {"d1": "(Definition/MyDef, (Action))", "d2": "(Definition/Other/#, (Label/#))"}},
}
SIDECARS = {"plain": SIDECAR_PLAIN, "refs": SIDECAR_REFS, "badref": SIDECAR_BADREF}

VALID_CELLS = ["Red", "Blue", "Green", "Item/Sound", "Sensory-event, Visual-presentation", "(Red, Blue)", "Label/abc",
               "Square", "(Square, Blue)", "Agent-action", "((Red, Blue), Green)"]
WARN_CELLS = ["Duration/2", "Red-color/Myext"]
INVALID_CELLS = ["Nonsense", "Red,", "(Red", "Red/", "Red,,Blue", "Label/#", "Blue)", "(Def/Unknown, Onset)", "Red/Blue/x",
                 "Bad tag!"]
# degenerate but readable cell texts: 'never raises' must hold through the REAL string validator for them
DEGENERATE_CELLS = ["()", "(())", "(),()", "((),())", "(()),(())", ",", "(,)", " ", "   ", "( )", "(),", ",()", "(),(),()",
                    "Red,()", "((Red),())", "(( )),(( ))", "\t", ",,", "(Red,),(Red,)", "((),()),((),())"]
ROWLEVEL_CELLS = ["Red, Red", "(Red, Blue), (Red, Blue)", "Onset", "(Onset)", "Delay/2 s", "(Delay/1 s)",
                  "(Delay/1 s, Red)", "((Delay/1 s,(Red)))", "(Delay/2 s, Delay/3 s, (Red))"]
TEMPORAL_CELLS = ["(Def/MyDef, Onset)", "(Def/MyDef, Offset)", "(Def/MyDef, Inset)", "(Def/mydef, Offset)",
                  "(Def/Other/3, Onset, (Red))", "(Def/Other/3, Offset)", "(Def/Other/4, Offset)",
                  "(Def/MyDef, Onset), (Def/MyDef, Offset)", "(Def/MyDef, Onset), (Def/mydef, Onset)",
                  "(Def/Other/3, Inset, (Blue))",
                  # the same event written with another letter case of the definition name (names are case-insensitive)
                  "(Def/MYDEF, Offset)", "(Def/mydef, Inset)", "(Def/myDef, Onset)", "(Def/other/3, Offset)",
                  "(Def/OTHER/3, Inset, (Red))"]
INNER = ["Red", "Blue", "Square", "(Green)", "Red, Red", "Nonsense", "Square, Blue"]
# temporal markers that share the top-level group of the Delay tag (the form the bookkeeping sees)
INNER_FLAT = ["Def/MyDef, Onset", "Def/MyDef, Offset", "Def/Other/3, Onset, (Red)", "Def/Other/3, Offset", "Def/MyDef, Inset"]
VALUES = ["x", "abc", "n/a", "n/a", "q", "x,y", "3"]

_schema = None
_units = None


def schema():
    global _schema
    if _schema is None:
        warnings.filterwarnings("ignore")
        from hed.schema import load_schema
        _schema = load_schema(os.path.join(C.REPO, "hed/schema/schema_data/HED8.3.0.xml"))
    return _schema


def unit_table():
    """{derived key: (factor float or None, is_symbol)} for timeUnits, read from the schema objects."""
    global _units
    if _units is None:
        from hed.schema.hed_schema_constants import HedKey
        uc = schema().unit_classes["timeUnits"]
        tab = {}
        for u in uc.units.values():
            has_f = HedKey.ConversionFactor in u.attributes
            sym = bool(u.has_attribute(HedKey.UnitSymbol))
            for k, f in u.derivative_units.items():
                tab[k] = (float(f) if has_f else None, sym)
        _units = tab
    return _units


def classify_unit(u):
    """(class, factor): class 1 UKey true, 2 UKey false, 3 UCase true, 4 UCase false, 5 UBad
    -- mirrors UnitClassEntry.get_derivative_unit_entry on the time units."""
    tab = unit_table()
    if u in tab and tab[u][1]:
        return (1 if tab[u][0] is not None else 2), tab[u][0]
    cf = u.casefold()
    if cf in tab and not tab[cf][1]:
        f = tab[cf][0]
        if u in tab:
            return (1 if f is not None else 2), f
        return (3 if f is not None else 4), f
    return 5, None


def badref_code():
    """published code of ColumnErrors.INVALID_COLUMN_REF (from the implementation's error table)"""
    from hed.errors.error_reporter import ErrorHandler
    from hed.errors.error_types import ColumnErrors
    return ErrorHandler.format_error(ColumnErrors.INVALID_COLUMN_REF, bad_ref="x")[0]["code"]


def to_float(s):
    try:
        return float(s)
    except (ValueError, TypeError):
        return None


def classify_delay(ext):
    """Abstraction of one Delay tag's extension text for the model: (num_us or None, unit class, out_of_range)."""
    value, _, units = ext.rpartition(" ")
    if not value:
        v = to_float(units)
        return (None if v is None else rnd_us(v), 0, v is not None and not in_range(v))
    cls, f = classify_unit(units)
    if cls in (1, 3):
        v = to_float(value)
        if v is None:
            return (None, cls, False)
        p = v * f
        return (rnd_us(p), cls, not in_range(p))
    return (0, cls, False)


# times that are numbers but not finite as floats ('inf', 'Infinity', '1e999', 'Delay/1e400 s') are represented by
# +-INF_US, beyond every finite generated time; sums with them are made to saturate by describe()
INF_US = 4 * 10**18
MODEL_MAX_US = 10**17          # finite times above this are not sent to the model (oracle only)


def onset_us(text):
    """exact value of an onset cell in microseconds (None = not a number, +-INF_US = +-infinity as a float).
    Decimal texts are read exactly with fractions.Fraction -- generated onsets have at most 6 decimals --, never
    through float32/float64 rounding."""
    f = to_float(text)
    if f is None or f != f:
        return None
    if f in (float("inf"), float("-inf")):
        return INF_US if f > 0 else -INF_US
    try:
        q = Fraction(text.strip()) * 10**6
        if q.denominator == 1:
            return int(q)
    except (ValueError, ZeroDivisionError):
        pass
    return rnd_us(f)


def in_range(p):
    return p == 0 or 1e-6 <= abs(p) <= 1e9 or p in (float("inf"), float("-inf"))


def rnd_us(p):
    if p in (float("inf"), float("-inf")):
        return INF_US if p > 0 else -INF_US
    if p != p:
        return 0
    return int(round(Fraction(p) * 10**6))


# ---------------------------------------------------------------- implementation side

def make_input(case, rows):
    import pandas as pd
    from hed.models import TabularInput, Sidecar
    if case.get("kind") == "sheet":
        # the other entry: SpreadsheetInput with tag columns (by number or name), with or without a header line;
        # without one the column labels are the numbers 0, 1, ... and the first data row is file row 1
        from hed.models import SpreadsheetInput
        header = case["header"]
        kw = {"tag_columns": list(case["tag_columns"]), "name": "f"}
        if case.get("prefix"):
            kw["column_prefix_dictionary"] = {(int(k) if str(k).isdigit() and not header else k): v
                                              for k, v in case["prefix"].items()}
        if case.get("tsv"):
            p = os.path.join(case["_dir"], "sheet.tsv")
            with open(p, "w") as f:
                if header:
                    f.write("\t".join(case["cols"]) + "\n")
                for r in rows:
                    f.write("\t".join(r) + "\n")
            return SpreadsheetInput(p, has_column_names=header, **kw)
        if header:
            df = pd.DataFrame([list(r) for r in rows], columns=list(case["cols"]), dtype=str)
        else:
            df = pd.DataFrame([list(r) for r in rows], dtype=str)     # default integer column labels
        return SpreadsheetInput(df, has_column_names=header, **kw)
    side = Sidecar(io.StringIO(json.dumps(SIDECARS[case["sidecar"]])))
    if case.get("tsv"):
        d = case["_dir"]
        p = os.path.join(d, "events.tsv")
        with open(p, "w") as f:
            f.write("\t".join(case["cols"]) + "\n")
            for r in rows:
                f.write("\t".join(r) + "\n")
        return TabularInput(p, sidecar=side, name="f")
    df = pd.DataFrame([list(r) for r in rows], columns=list(case["cols"]), dtype=str)
    return TabularInput(df, sidecar=side, name="f")


def issue_key(i):
    from hed.errors import ErrorContext
    return (i["code"], int(i["severity"]), i.get(ErrorContext.ROW), i.get(ErrorContext.COLUMN))


def run_validate(case, rows):
    """Observable behaviour of file validation: sorted list of (code, severity, row, column) or an exception."""
    try:
        t = make_input(case, rows)
    except Exception as e:  # noqa
        return {"ctor_exn": type(e).__name__ + ":" + str(e)[:100]}
    try:
        iss = t.validate(schema())
        return {"issues": [issue_key(i) for i in iss]}
    except Exception as e:  # noqa
        tb = traceback.extract_tb(e.__traceback__)
        return {"exn": type(e).__name__, "msg": str(e)[:120], "frames": [f.name for f in tb]}


def describe(case, rows, shared=None):
    """Everything the model and the oracle need to know about one table, from the implementation's building blocks.
    shared: {"texts": {}, "basic": {}} to keep cell ids stable over the versions of one table (histories)."""
    from hed.models import HedString
    from hed.validator import HedValidator
    sch = schema()
    t = make_input(case, rows)
    cols = list(case["cols"])
    header = not (case.get("kind") == "sheet" and not case["header"])
    if not header:
        cols = list(range(len(cols)))
    has_onset = "onset" in cols
    dd = t._mapper.get_def_dict(sch)
    hv = HedValidator(sch, def_dicts=dd)
    cells_df = t.dataframe_a                      # on the UNSORTED frame: row-wise correct (C06)
    hed_cols = list(cells_df.columns)
    series = list(t.combine_dataframe(cells_df))
    colrank = {name: i + 1 for i, name in enumerate(sorted(set(cols)))}
    # categorical columns in column_metadata() order, bad keys per row
    from hed.models.column_mapper import ColumnType
    cats = [m.column_name for m in t.column_metadata().values() if m.column_type == ColumnType.Categorical]
    raw = t.dataframe
    pre = [(i["code"], int(i["severity"])) for i in t._mapper.check_for_mapping_issues()]
    npost = len([r for r in t.get_column_refs() if r not in t.columns])
    texts = {} if shared is None else shared["texts"]        # cell text -> id
    basic = {} if shared is None else shared["basic"]        # id -> [(code, sev)]
    out_rows = []
    nomodel = False
    for k in range(len(rows)):
        cl = []
        for c in hed_cols:
            txt = str(cells_df[c].iloc[k])
            if txt not in texts:
                texts[txt] = len(texts) + 1
                iss = hv.run_basic_checks(HedString(txt, sch), allow_placeholders=False)
                basic[texts[txt]] = [(i["code"], int(i["severity"])) for i in iss]
            cl.append((colrank[c], texts[txt], 1 if cell_is_empty(txt) else 0))
        bad = [colrank[c] for c in cats if str(raw[c].iloc[k]) != "n/a"
               and str(raw[c].iloc[k]) not in SIDECARS[case["sidecar"]][c]["HED"]]
        s = series[k]
        dtext = "delay/" in s.casefold()
        delays = []
        if dtext:
            hs = HedString(s, sch)
            for tag, _grp in hs.find_top_level_tags({"Delay"}):
                num, cls, oor = classify_delay(tag.extension)
                nomodel = nomodel or oor
                delays.append((num, cls))
        onset = None
        if has_onset:
            o = str(raw["onset"].iloc[k])
            onset = onset_us(o)
            if onset is not None and abs(onset) > MODEL_MAX_US and abs(onset) != INF_US:
                nomodel = True
        # float arithmetic with infinities: inf + x = inf, x + inf = inf, inf - inf = nan.  The model adds exact
        # integers, so the Delay amounts are adjusted to make onset + delay land exactly on +-INF_US.
        nan_groups = 0
        if onset is not None:
            adj_delays = []
            for num, cls in delays:
                if num is not None and cls in (0, 1, 3) and (abs(onset) == INF_US or abs(num) == INF_US):
                    if abs(onset) == INF_US and abs(num) == INF_US and (onset > 0) != (num > 0):
                        nan_groups += 1          # inf - inf: the group gets a NaN time
                        if F7_FIXED:
                            num = None           # with fix-F7 the group stays in its row (model: not convertible)
                        else:
                            nomodel = True
                    elif abs(onset) == INF_US:
                        num = 0
                    else:
                        num = num - onset
                adj_delays.append((num, cls))
            delays = adj_delays
        out_rows.append({"onset": onset, "cells": cl, "bad": bad, "dtext": dtext, "delays": delays, "series": s,
                         "nan_groups": nan_groups})
    return {"rows": out_rows, "cats": [colrank[c] for c in cats], "texts": {v: k for k, v in texts.items()},
            "basic": dict(basic), "pre": pre, "npost": npost, "colname": {v: k for k, v in colrank.items()},
            "has_onset": has_onset, "hed_cols": hed_cols, "nomodel": nomodel, "header": header, "adj": 2 if header else 1,
            "has_refs": bool([r for r in t.get_column_refs() if r in t.columns])}


def model_line(desc, fixed=UNIT_FIXED):
    return C.to_sx([cfg_sx(desc, fixed), [row_sx(r) for r in desc["rows"]], err_sx(desc["basic"])])


def cfg_sx(desc, fixed=UNIT_FIXED):
    return [1 if desc.get("header", True) else 0, 1 if desc["has_onset"] else 0, 1 if (desc["has_refs"] and REFS_SCRAMBLE) else 0, desc["cats"],
            1 if fixed else 0, len(desc["pre"]), desc["npost"], FIXED, FIXED, FIXED]


def row_sx(r):
    def oz(x):
        return "N" if x is None else x
    return [oz(r["onset"]), [list(c) for c in r["cells"]], r["bad"], 1 if r["dtext"] else 0,
            [[oz(n), u] for n, u in r["delays"]]]


def err_sx(basic):
    return [[i, 1 if any(s == ERR for _c, s in b) else 0] for i, b in sorted(basic.items())]


# ---------------------------------------------------------------- histories on ONE input object

class _Text:
    """stands for the HedString argument of BaseInput.set_cell (only get_as_form is used by it)"""

    def __init__(self, text):
        self.text = text

    def get_as_form(self, _form):
        return self.text


def validate_object(t):
    """observable behaviour of validating an EXISTING input object (same shape as run_validate)"""
    try:
        iss = t.validate(schema())
        return {"issues": [issue_key(i) for i in iss]}
    except Exception as e:  # noqa
        tb = traceback.extract_tb(e.__traceback__)
        return {"exn": type(e).__name__, "msg": str(e)[:120], "frames": [f.name for f in tb]}


def stage1_history(case):
    """validate / edit in place / validate again on one object; every validation point becomes one table entry
    (current rows, abstraction of the CURRENT table from a fresh object, report of the edited object, report of a
    fresh object) so that the whole oracle and the correspondence apply to every report of the history."""
    from hed.models import HedString
    warnings.filterwarnings("ignore")
    out = {"case": case, "tables": [], "history": True, "hline": None, "notes": []}
    d = None
    try:
        if case.get("tsv"):
            d = C.scratch_dir("hedverif-c07-")
            case = dict(case, _dir=d)
        cols = list(case["cols"])
        tracked = [list(r) for r in case["rows"]]
        shared = {"texts": {}, "basic": {}}
        try:
            t = make_input(case, tracked)
            desc0 = describe(case, tracked, shared)
        except Exception:  # noqa
            out["tables"].append({"rows": tracked, "describe_exn": traceback.format_exc()[-600:]})
            return out
        prev = desc0
        mops = []
        nomodel = desc0["nomodel"]
        for oi, op in enumerate(case["ops"]):
            kind = op[0]
            try:
                if kind == "validate":
                    impl = validate_object(t)
                    frame = [[str(x) for x in row] for row in t.dataframe.values.tolist()]
                    out["tables"].append({"rows": [list(r) for r in tracked], "desc": prev, "impl": impl,
                                          "fresh": run_validate(case, tracked), "frame_ok": frame == tracked,
                                          "frame": None if frame == tracked else frame, "step": oi, "line": None})
                    mops.append(["V"])
                    continue
                if kind == "read":
                    t.dataframe_a, t.series_a     # noqa  (fills whatever the object may cache)
                    continue
                if kind == "set_cell":
                    _k, r, cname, text, real = op
                    c = cols.index(cname)
                    if real:
                        hs = HedString(text, schema())
                        new = hs.get_as_form("short_tag")
                        t.set_cell(r, c, hs)
                    else:
                        new = text
                        t.set_cell(r, c, _Text(text))
                    tracked[r][c] = new
                elif kind == "write":
                    _k, r, cname, text = op
                    c = cols.index(cname)
                    t.dataframe.iloc[r, c] = text
                    tracked[r][c] = text
                elif kind in ("short", "long"):
                    form = kind + "_tag"
                    tagcols = [x for x in t._mapper.get_tag_columns() if x in cols]
                    new = {x: [str(HedString(tracked[r][cols.index(x)], schema()).get_as_form(form))
                               for r in range(len(tracked))] for x in tagcols}
                    (t.convert_to_short if kind == "short" else t.convert_to_long)(schema())
                    for x, vals in new.items():
                        for r, v in enumerate(vals):
                            tracked[r][cols.index(x)] = v
                now = describe(case, tracked, shared)
            except Exception:  # noqa  an edit that fails is outside the property: the history ends here
                out["notes"].append(f"op {oi} {kind}: " + traceback.format_exc()[-300:])
                break
            nomodel = nomodel or now["nomodel"]
            for k, (a, b) in enumerate(zip(prev["rows"], now["rows"])):
                if row_sx(a) != row_sx(b):
                    mops.append(["S", k, row_sx(b)])
            prev = now
        if not nomodel and out["tables"]:
            out["hline"] = C.to_sx(["H", cfg_sx(desc0), [row_sx(r) for r in desc0["rows"]], err_sx(shared["basic"]), mops])
    finally:
        if d:
            shutil.rmtree(d, ignore_errors=True)
    return out


def stage1(case):
    warnings.filterwarnings("ignore")
    out = {"case": case, "tables": []}
    d = None
    try:
        if case.get("tsv"):
            d = C.scratch_dir("hedverif-c07-")
            case = dict(case, _dir=d)
        variants = [case["rows"]]
        for p in case.get("perms", []):
            variants.append([case["rows"][i] for i in p])
        for rows in variants:
            try:
                desc = describe(case, rows)
            except Exception as e:  # noqa
                out["tables"].append({"rows": rows, "describe_exn": traceback.format_exc()[-600:]})
                continue
            out["tables"].append({"rows": rows, "desc": desc, "impl": run_validate(case, rows),
                                  "line": None if desc["nomodel"] else model_line(desc)})
    finally:
        if d:
            shutil.rmtree(d, ignore_errors=True)
    return out


# ---------------------------------------------------------------- expansion of the model's symbolic output

class Expander:
    """Implementation's own string-level results for the strings the model asks about."""

    def __init__(self, case, desc):
        from hed.models import Sidecar
        from hed.validator import HedValidator
        from hed.validator.onset_validator import OnsetValidator
        self.sch = schema()
        if case.get("kind") == "sheet":
            from hed.models.definition_dict import DefinitionDict
            self.dd = DefinitionDict(None, self.sch)
        else:
            side = Sidecar(io.StringIO(json.dumps(SIDECARS[case["sidecar"]])))
            self.dd = side.get_def_dict(self.sch)
        self.hv = HedValidator(self.sch, def_dicts=self.dd)
        self.desc = desc
        self._cache = {}

    def piece_text(self, p):
        from hed.models import HedString
        kind = p[0]
        ids = p[2:] if kind in ("D", "R") else p[1:]
        txt = ", ".join(self.desc["texts"][int(i)] for i in ids)
        if kind == "C":
            return txt
        hs = HedString(txt, self.sch)
        groups = [g for _t, g in hs.find_top_level_tags({"Delay"})]
        if kind == "D":
            return str(groups[int(p[1])])
        hs.remove([groups[int(k)] for k in p[1]])      # R: the row without the groups that were moved
        return str(hs)

    def hed(self, ann):
        from hed.models import HedString
        if len(ann) == 1 and ann[0][0] == "J":
            # _run_checks: the row object is assembled from the cell OBJECTS (after their basic checks)
            cells = [HedString(self.desc["texts"][int(i)], self.sch) for i in ann[0][1:]]
            for c in cells:
                self.hv.run_basic_checks(c, allow_placeholders=False)
            return HedString.from_hed_strings(cells)
        text = ",".join(self.piece_text(p) for p in ann)
        return HedString(text, self.sch, self.hv._def_validator)

    def expand(self, model_issues):
        """-> Counter of (code, severity, row, column name)"""
        from hed.validator.onset_validator import OnsetValidator
        out = Counter()
        temporal = []
        ov = OnsetValidator()
        for src, row, col in model_issues:
            r = None if row == "-" else int(row)
            c = None if col == "-" else self.desc["colname"][int(col)]
            if src == "U":
                out[("ONSETS_UNORDERED", 10, r, c)] += 1
            elif src == "K":
                out[("SIDECAR_KEY_MISSING", 10, r, c)] += 1
            elif src[0] == "B":
                for code, sev in self.desc["basic"][int(src[1])]:
                    out[(code, sev, r, c)] += 1
            elif src[0] == "P":
                code, sev = self.desc["pre"][int(src[1])]
                out[(code, sev, r, c)] += 1
            elif src[0] == "Q":
                out[(badref_code(), ERR, r, c)] += 1
            elif src[0] == "F":
                hs = self.hed(src[1])
                if hs:
                    for i in self.hv.run_full_string_checks(hs):
                        out[(i["code"], int(i["severity"]), r, c)] += 1
            elif src[0] == "N":
                hs = self.hed(src[1])
                if hs:
                    for i in OnsetValidator.check_for_banned_tags(hs):
                        out[(i["code"], int(i["severity"]), r, c)] += 1
            elif src[0] == "T":
                temporal.append((int(src[1]), src[2], r, c))
        for _k, ann, r, c in sorted(temporal, key=lambda x: x[0]):
            hs = self.hed(ann)
            if hs:
                for i in ov.validate_temporal_relations(hs):
                    out[(i["code"], int(i["severity"]), r, c)] += 1
        return out


# ---------------------------------------------------------------- implementation-side oracle

# the classes of the repaired findings, recognised only when the unrepaired code is checked (VERIF_C07_FIXED=0)
RETIRED = {
 "C07-F2": {
  "what": "file validation raises TypeError (None + float in df_util.split_delay_tags) for a Delay value in an accepted time unit that has no conversionFactor (month, year), e.g. '(Delay/2 years,(Red))'; string validation accepts it [repaired by fix commit ef31cc7; recognised only with VERIF_C07_FIXED=0]"
 },
 "C07-F3": {
  "what": "file validation raises (TypeError/ValueError in df_util.split_delay_tags, which converts Delay values BEFORE any validation) instead of reporting the issue when a Delay value is one that string validation itself rejects (invalid unit 'Delay/2 S', non-numeric 'Delay/abc s', placeholder 'Delay/#') or stands in a row whose onset is n/a [repaired by fix commit e4bce88; recognised only with VERIF_C07_FIXED=0]"
 },
 "C07-F4": {
  "what": "with an n/a onset in the file, _run_checks indexes the onset mask of the SORTED split frame (onset_mask.iloc[row_number]) with the original row label: row-level (full-string) errors of some rows are lost and those of others are reported twice, e.g. rows [n/a 'Red, Red'], [2.0 'Blue'] report no TAG_EXPRESSION_REPEATED [repaired by fix commit c357095; recognised only with VERIF_C07_FIXED=0]"
 }
}
BAD_F2, BAD_F3 = "C07-F2", "C07-F3"     # (C07-F1, the case-variant spelling, was fixed by f83491d)


def bad_delay_classes(desc):
    """Known classes of Delay values on which split_delay_tags raises."""
    out = set()
    for r in desc["rows"]:
        if not r["dtext"]:
            continue
        for num, cls in r["delays"]:
            if cls in (2, 4):
                out.add(BAD_F2)          # accepted unit without conversionFactor (month, year)
            elif cls == 5 or num is None:
                out.add(BAD_F3)          # value / unit that string validation itself rejects
            if r["onset"] is None and desc["has_onset"]:
                out.add(BAD_F3)          # Delay in a row without numeric onset
    return out


def movable(r, num, cls):
    """a Delay group takes effect at onset + delay when both are numbers and the unit converts to seconds;
    otherwise (repaired code) it stays with its row"""
    if r["onset"] is not None and num is not None and cls in (0, 1, 3):
        # inf - inf has no time: such a group can only stay with its row (what fix-F7 does)
        return not (abs(r["onset"]) == INF_US and abs(num) == INF_US and (r["onset"] > 0) != (num > 0))
    return False


def effective_times(desc):
    """[(time, row index)] of every piece (row remainder and each moved Delay group).
    Unrepaired code (FIXED=0): None when some group cannot be moved (validation raises)."""
    out = []
    for k, r in enumerate(desc["rows"]):
        out.append((r["onset"], k))
        if r["dtext"]:
            for num, cls in r["delays"]:
                if not movable(r, num, cls):
                    if not FIXED:
                        return None
                    continue
                out.append((r["onset"] + num, k))
    return out


def tied_rows(desc):
    """rows whose pieces share an effective time with a piece of ANOTHER row (same-onset merging applies)."""
    et = effective_times(desc)
    if et is None:
        return None
    by = {}
    for tm, k in et:
        by.setdefault(tm, set()).add(k)
    tied = set()
    for tm, ks in by.items():
        if tm is not None and len(ks) > 1:
            tied |= ks
    return tied


def is_sorted(desc):
    on = [r["onset"] for r in desc["rows"]]
    return all(o is not None for o in on) and all(a <= b for a, b in zip(on, on[1:]))


def finding_class(desc):
    """Known-finding class a labelling/equality failure of this table may belong to (None = none)."""
    if not F7_FIXED and any(r.get("nan_groups") for r in desc["rows"]):
        return "C07-F7"      # a Delay group whose shifted time is inf - inf = NaN is validated nowhere
    if REFS_SCRAMBLE and desc["has_onset"] and desc["has_refs"] and not is_sorted(desc):
        return "C07-F5"
    if not FIXED and desc["has_onset"] and any(r["onset"] is None for r in desc["rows"]):
        return "C07-F4"
    return None


def string_level(exp, text):
    """error-severity codes of string-level validation of one assembled annotation"""
    from hed.models import HedString
    hs = HedString(text, exp.sch, exp.dd)
    return Counter(i["code"] for i in exp.hv.validate(hs, allow_placeholders=False) if int(i["severity"]) == ERR)


class SpecOnsets:
    """Onset/Offset/Inset bookkeeping written from the statement, INDEPENDENT of hed.validator.onset_validator:
    an event is identified by its definition name with value, compared case-insensitively; per time point each name
    acts once (a second use is an error and has no effect); Onset opens, Offset needs an open event and closes it,
    Inset needs an open event.  Only the parse tree of HedString is used."""
    MARKERS = ("onset", "offset", "inset")

    def __init__(self):
        self.open = set()

    def time_point(self, hs):
        from hed.models.hed_tag import HedTag
        errors = 0
        used = set()
        for group in hs.groups():
            marker = next((t for t in group.tags() if t.short_base_tag.casefold() in self.MARKERS), None)
            if marker is None:
                continue
            defs = []
            for child in group.children:
                if isinstance(child, HedTag):
                    if child.short_base_tag.casefold() == "def":
                        defs.append(child)
                else:
                    defs += [t for t in child.tags() if t.short_base_tag.casefold() == "def-expand"]
            if not defs:
                continue
            name = defs[0].extension.casefold()
            if name in used:
                errors += 1
                continue
            used.add(name)
            kind = marker.short_base_tag.casefold()
            if kind == "onset":
                self.open.add(name)
            elif name not in self.open:
                errors += 1
            elif kind == "offset":
                self.open.discard(name)
        return errors


def temporal_expected(exp, desc):
    """Independent bookkeeping: markers take effect in order of onset + Delay; {row index: count} or None."""
    from hed.models import HedString
    et = effective_times(desc)
    if et is None:
        return None
    pieces = []   # (time, seq, row, text)
    seq = 0
    pseudo = []
    for k, r in enumerate(desc["rows"]):
        if r["onset"] is None:
            continue
        txt = r["series"]
        if r["dtext"]:
            hs = HedString(txt, exp.sch)
            groups = [g for _t, g in hs.find_top_level_tags({"Delay"})]
            moved = []
            for (num, cls), g in zip(r["delays"], groups):
                if movable(r, num, cls):
                    pseudo.append((r["onset"] + num, k, str(g)))
                    moved.append(g)
            hs.remove(moved)
            txt = str(hs)
        pieces.append((r["onset"], seq, k, txt))
        seq += 1
    for tm, k, txt in pseudo:
        pieces.append((tm, seq, k, txt))
        seq += 1
    nbase = seq - len(pseudo)
    pieces.sort(key=lambda x: (x[0], x[1]))
    ov = SpecOnsets()
    out = Counter()
    landing = {}      # row k -> (text of its time point, rows owning the Delay groups that land on it)
    for tm, grp in itertools.groupby(pieces, key=lambda x: x[0]):
        grp = list(grp)
        text = ",".join(g[3] for g in grp)
        hs = HedString(text, exp.sch, exp.hv._def_validator)
        if hs:
            n = ov.time_point(hs)
            if n:
                out[grp[0][2]] += n
        real = [g for g in grp if g[1] < nbase]
        if len(real) == 1 and len(grp) > 1:
            # exactly one file row really has this onset; Delay groups of other rows land on it: the time point is that
            # row's (its annotation plus the landed groups), and what is wrong there is reported at ITS file row
            landing[real[0][2]] = (",".join(g[3] for g in grp if g[3]), {g[2] for g in grp if g[1] >= nbase})
    out.landing = landing
    return out


def oracle(case, tab, exp, res, tag):
    """Clauses of the statement on one table.  Returns the (code, sev, ident, col) multiset used by the shuffle clause."""
    desc, impl = tab["desc"], tab["impl"]
    payload = {"case": strip(case), "rows": tab["rows"], "which": tag}
    if "ctor_exn" in impl:
        res.report("never-raises(constructor)", payload, impl["ctor_exn"])
        return None
    if "exn" in impl:
        classes = bad_delay_classes(desc) if not FIXED else set()    # repaired code: every raise is a violation
        fid = None
        if "split_delay_tags" in impl["frames"] and classes:
            if impl["exn"] == "TypeError" and "unsupported operand" in impl["msg"]:
                fid = BAD_F2 if BAD_F2 in classes else (BAD_F3 if BAD_F3 in classes else None)
            elif impl["exn"] == "ValueError" and BAD_F3 in classes:
                fid = BAD_F3
        if (fid is None and finding_class(desc) == "C07-F5" and "split_delay_tags" in impl["frames"]
                and impl["exn"] == "ValueError" and any(r["onset"] is None for r in desc["rows"])
                and any(r["dtext"] and r["delays"] for r in desc["rows"])):
            fid = "C07-F5"     # the scrambled frame pairs a Delay row with another row's n/a onset
        res.report("never-raises", payload, f"{impl['exn']}: {impl['msg']} in {impl['frames'][-3:]}", fid=fid)
        return None
    n = len(desc["rows"])
    adj = desc.get("adj", ADJ)
    issues = impl["issues"]
    fclass = finding_class(desc)
    hedcols = set(desc["hed_cols"])
    catcols = {desc["colname"][c] for c in desc["cats"]}
    by_row = {}
    for code, sev, row, col in issues:
        by_row.setdefault(row, []).append((code, sev, col))
    # ---- labels
    for code, sev, row, col in issues:
        if row is None:
            if col is not None:
                res.report("labels", payload, f"issue {code} has a column but no row", fid=fclass)
            continue
        if not (adj <= row <= n + adj - 1):
            res.report("labels", payload, f"issue {code} labelled row {row}, file has rows {adj}..{n + adj - 1}", fid=fclass)
            continue
        if col is None:
            continue
        r = desc["rows"][row - adj]
        ok = False
        if code == "SIDECAR_KEY_MISSING":
            ok = col in catcols and any(desc["colname"][b] == col for b in r["bad"])
        elif col in hedcols:
            for cr, cid, skip in r["cells"]:
                if desc["colname"][cr] == col and not skip and (code, sev) in desc["basic"][cid]:
                    ok = True
        if not ok:
            res.report("labels", payload, f"issue {(code, sev, row, col)} does not come from that cell", fid=fclass)
    # ---- every cell error is kept, with its location
    clean_rows = []
    for k, r in enumerate(desc["rows"]):
        clean = True
        for cr, cid, skip in r["cells"]:
            if skip:
                continue
            want = Counter(code for code, sev in desc["basic"][cid] if sev == ERR)
            if want:
                clean = False
            got = Counter(code for code, sev, col in by_row.get(k + adj, []) if sev == ERR and col == desc["colname"][cr])
            if want - got:
                res.report("cell-errors-kept", payload,
                           f"row {k + adj} column {desc['colname'][cr]}: cell errors {dict(want)} reported {dict(got)}",
                           fid=fclass)
        if clean:
            clean_rows.append(k)
    # ---- rows with error-free cells: exactly the string-level error codes (+ temporal issues)
    tied = tied_rows(desc) if desc["has_onset"] else set()
    dirty_temporal = any(k not in clean_rows and any(w in r["series"].casefold() for w in TEMPORAL_WORDS)
                         for k, r in enumerate(desc["rows"]))
    texp = temporal_expected(exp, desc) if (desc["has_onset"] and not dirty_temporal) else None
    for k in clean_rows:
        r = desc["rows"][k]
        landed = None
        if tied is not None and k in tied and texp is not None and k in getattr(texp, "landing", {}):
            text_k, owners = texp.landing[k]
            if all(o in clean_rows for o in owners):
                landed = text_k
        if (tied is None or k in tied) and landed is None:
            continue          # same-time merging of several file rows: not covered by the statement
        got = Counter(code for code, sev, col in by_row.get(k + adj, []) if sev == ERR)

        def expected(text, got=got, k=k, r=r):
            """(file codes, string-level codes of the annotation [+ temporal issues]) made comparable"""
            g = Counter(got)
            want = string_level(exp, text)
            if desc["has_onset"] and (r["onset"] is not None or not FIXED):
                if r["onset"] is not None and texp is not None:
                    want["TEMPORAL_TAG_ERROR"] += texp.get(k, 0)
                else:
                    g.pop("TEMPORAL_TAG_ERROR", None)
                    want.pop("TEMPORAL_TAG_ERROR", None)
            else:
                # no onset column, or (repaired code) a row without a numeric onset: temporal tags have no time
                from hed.models import HedString
                hs = HedString(text, exp.sch, exp.dd)
                want["TEMPORAL_TAG_ERROR"] += sum(1 for tg in hs.get_all_tags()
                                                  if tg.short_base_tag in ("Onset", "Offset", "Inset", "Delay", "Duration"))
            return +g, +want
        got, want = expected(r["series"] if landed is None else landed)
        if got != want:
            f6 = None
            live = [desc["texts"][cid] for _cr, cid, skip in r["cells"] if not skip]
            if not F6_FIXED and len(live) >= 2 and any(not x.strip(" ") for x in live):
                # a blanks-only cell joined with other cells: the file reports what string validation reports for the
                # row WITHOUT its blank cells (their empty tag, and whatever that error hides, is the known difference)
                g2, w2 = expected(", ".join(x for x in live if x.strip(" ")))
                if g2 == w2:
                    f6 = "C07-F6"
            res.report("row-equals-string", payload,
                       f"row {k + adj} '{r['series']}': file reports {dict(got)}, string validation {dict(want)}", fid=f6 or fclass)
    # multiset with rows replaced by their identity (the row content incl. onset), for the shuffle clause
    ident = Counter()
    for code, sev, row, col in issues:
        rid = None if row is None or not (adj <= row <= n + adj - 1) else tuple(tab["rows"][row - adj])
        ident[(code, sev, rid, col)] += 1
    return ident


def shuffle_oracle(case, tabs, idents, res):
    base = tabs[0]
    d0 = base["desc"]
    if not d0["has_onset"] or idents[0] is None:
        return
    on = [r["onset"] for r in d0["rows"]]
    if any(o is None for o in on) or len(set(on)) != len(on):
        return                          # the clause speaks about files with distinct onsets
    tied = tied_rows(d0)
    if tied is None or tied:
        return                          # Delay makes two rows share a time point: merged, not covered
    for tb, idn in zip(tabs[1:], idents[1:]):
        if idn is None:
            continue
        payload = {"case": strip(case), "rows": base["rows"], "shuffled": tb["rows"], "which": "shuffle"}
        fclass = finding_class(tb["desc"]) or finding_class(d0)
        a, b = Counter(idents[0]), Counter(idn)
        ua = sum(v for k, v in a.items() if k[0] == "ONSETS_UNORDERED")
        ub = sum(v for k, v in b.items() if k[0] == "ONSETS_UNORDERED")
        for x in (a, b):
            for k in [k for k in x if k[0] == "ONSETS_UNORDERED"]:
                del x[k]
        if a != b:
            res.report("shuffle-invariant", payload, f"only in original {dict(a - b)}; only in shuffled {dict(b - a)}",
                       fid=fclass)
        if ua != (0 if is_sorted(d0) else 1) or ub != (0 if is_sorted(tb["desc"]) else 1):
            res.report("shuffle-unordered-warning", payload, f"ONSETS_UNORDERED count {ua} / {ub}", fid=None)


def strip(case):
    return {k: v for k, v in case.items() if not k.startswith("_")}


def stage2(arg):
    """expansion + correspondence + oracle for one case; returns list of (kind, clause, payload, detail, fid)."""
    warnings.filterwarnings("ignore")
    s1, models = arg
    case = s1["case"]
    res = C.Result(PROP)
    res.known_ids = {f"C07-F{i}": 1 for i in range(1, 9)}   # hits are re-reported by the parent
    events = []
    idents = []
    corr = 0
    for ti, (tab, m) in enumerate(zip(s1["tables"], models)):
        tag = (f"history-step{tab.get('step')}" if s1.get("history") else ("table" if ti == 0 else f"perm{ti}"))
        if "describe_exn" in tab:
            events.append(("violation", "harness-describe", {"case": strip(case), "rows": tab["rows"]}, tab["describe_exn"], None))
            idents.append(None)
            continue
        desc, impl = tab["desc"], tab["impl"]
        probe = Recorder()
        try:
            exp = Expander(case, desc)
            idents.append(oracle(case, tab, exp, probe, tag))
        except Exception:  # noqa
            events.append(("violation", "harness-oracle", {"case": strip(case), "rows": tab["rows"]},
                           traceback.format_exc()[-800:], None))
            idents.append(None)
            continue
        if s1.get("history"):
            hp = {"case": strip(case), "rows": tab["rows"], "which": tag}
            fresh = tab["fresh"]
            same = (impl.get("exn") == fresh.get("exn") and impl.get("ctor_exn") == fresh.get("ctor_exn")
                    and Counter(tuple(i) for i in impl.get("issues", [])) == Counter(tuple(i) for i in fresh.get("issues", [])))
            if not same:
                a = Counter(tuple(i) for i in impl.get("issues", []))
                b = Counter(tuple(i) for i in fresh.get("issues", []))
                probe.report("history-same-as-fresh", hp,
                             f"after the edits the object reports {impl.get('exn') or dict(a - b)} but a fresh object holding the "
                             f"same table reports {fresh.get('exn') or dict(b - a)}")
            if not tab["frame_ok"]:
                probe.report("history-table", hp, f"the object's table {tab['frame']} is not the edited table {tab['rows']}")
        events += probe.events
        # correspondence
        if m is None:
            continue
        corr += 1
        payload = {"case": strip(case), "rows": tab["rows"], "which": tag}
        diff = None
        if m[0] == "ERR":
            diff = f"driver: {m}"
        elif "ctor_exn" in impl:
            diff = None
        elif m[0] == "exn":
            if impl.get("exn") != m[1]:
                diff = f"model raises {m[1]}, implementation: {impl.get('exn', 'returns')}"
        elif "exn" in impl:
            diff = f"implementation raises {impl['exn']} ({impl['msg']}), model returns"
        else:
            try:
                mm = exp.expand(m[1])
            except Exception:  # noqa
                events.append(("violation", "harness-expand", payload, traceback.format_exc()[-800:], None))
                continue
            im = Counter(tuple(i) for i in impl["issues"])
            if mm != im:
                diff = f"only model {dict(mm - im)}; only implementation {dict(im - mm)}"
        if diff:
            # a property failure on this input is reported by the oracle (with the input); otherwise the tie is broken
            events.append(("corr", "correspondence", payload, diff, None if not probe.events else "covered"))
    probe = Recorder()
    try:
        if not s1.get("history"):
            shuffle_oracle(case, [t for t in s1["tables"] if "desc" in t],
                           [i for t, i in zip(s1["tables"], idents) if "desc" in t], probe)
    except Exception:  # noqa
        events.append(("violation", "harness-shuffle", {"case": strip(case)}, traceback.format_exc()[-800:], None))
    events += probe.events
    return events, corr


class Recorder:
    def __init__(self):
        self.events = []

    def report(self, clause, case, detail="", fid=None):
        self.events.append(("report", clause, case, detail, fid))


# ---------------------------------------------------------------- generators

def fmt_onset(x):
    return repr(float(x))


NONFINITE_ONSETS = ["inf", "Infinity", "1e999", "+inf", "INF", "-inf", "-Infinity", "-1e999"]


def spell_onset(rng, eighths):
    """another spelling of the number eighths/8 (exactly the same value)"""
    v = Fraction(eighths, 8)
    plain = repr(float(v))
    form = rng.choice(["plain", "plus", "zeros", "exp", "EXP", "trail"])
    if form == "plus":
        return "+" + plain
    if form == "zeros":
        return "00" + plain
    if form == "exp":
        return repr(float(v * 10)) + "e-1"
    if form == "EXP":
        return repr(float(v / 100)) + "E2" if (v / 100 * 10**6).denominator == 1 else plain
    if form == "trail":
        return plain + "00"
    return plain


def fine_onsets(rng, n):
    """n distinct onsets as DECIMAL STRINGS that are hard for narrow floats: large magnitudes with tiny differences
    (equal in float32/float16, distinct in float64), many significant digits, values around powers of two and ten.
    All differences are below 0.5 s, so no Delay shift (>= 0.5 s) can make two effective times coincide."""
    kind = rng.choice(["late", "digits", "pow2", "pow10"])
    if kind == "late":
        base = Fraction(rng.choice([1234, 3600, 7200, 9999, 43200, 86399])) + Fraction(rng.randrange(0, 10**4), 10**4)
    elif kind == "digits":
        base = Fraction(rng.randrange(10**8, 10**10), 10**6)            # e.g. 1234.567851
    elif kind == "pow2":
        base = Fraction(2) ** rng.choice([10, 11, 12, 13, 16, 20, 24]) - Fraction(rng.choice([0, 1, 3, 50]), 10**5)
    else:
        base = Fraction(10) ** rng.choice([3, 4, 5, 6, 7]) - Fraction(rng.choice([0, 1, 2, 70]), 10**5)
    delta = Fraction(1, rng.choice([10**5, 10**5, 2 * 10**4, 10**4, 10**3]))
    steps = rng.sample(range(0, 40), n)
    out = []
    for s in steps:
        q = base + s * delta
        ip, fp = divmod(q * 10**6, 10**6)
        txt = f"{int(ip)}.{int(fp):06d}".rstrip("0")
        out.append(txt + "0" if txt.endswith(".") else txt)
    return out


def unit_spellings(rng, kind):
    """kind: 'int' integer-factor units (exact), 'sub' milli/micro, 'nofactor', 'bad', 'case'"""
    tab = unit_table()
    if kind == "int":
        ks = [k for k, (f, s) in tab.items() if f is not None and f >= 1 and f <= 1e5 and float(f).is_integer()]
        return rng.choice(ks)
    if kind == "case":
        ks = [k for k, (f, s) in tab.items() if f is not None and not s and f >= 1 and f <= 1e5 and float(f).is_integer()]
        k = rng.choice(ks)
        return rng.choice([k.capitalize(), k.upper(), k[0] + k[1:].upper()])
    if kind == "sub":
        ks = [k for k, (f, s) in tab.items() if f is not None and f in (0.001, 1e-6)]
        return rng.choice(ks)
    if kind == "nofactor":
        return rng.choice(["year", "years", "month", "months", "Years", "MONTH"])
    return rng.choice(["S", "sec", "meters", "Ks", "m-s"])


def delay_cell(rng, kind=None, tag="Delay"):
    kind = kind or rng.choices(["int", "case", "sub", "nofactor", "bad", "nounit", "nan"], [50, 14, 10, 6, 6, 7, 7])[0]
    if tag == "Delay" and rng.random() < 0.4:
        rest = ", " + rng.choice(INNER_FLAT) + ")"      # marker in the Delay tag's own group
    else:
        rest = ",(" + rng.choice(INNER) + "))"
    if kind == "nounit":
        return f"({tag}/{rng.choice(['2', '0.5'])}{rest}"
    if kind == "nan":
        return f"({tag}/{rng.choice(['abc s', '#', 'two seconds', '1..5 s'])}{rest}"
    u = unit_spellings(rng, kind)
    amount = rng.choice(["3", "7"]) if kind == "sub" else rng.choice(["0.5", "1", "1.5", "2", "3", "2.0", "1e1"])
    if kind != "sub" and rng.random() < 0.12:
        # other spellings of a valid number: sign, leading zero, exponent forms, values that overflow / underflow as floats
        amount = rng.choice(["+2", "02", "2.50", "1E0", "1.5e0", "1e400", "1E999", "1e-400", "1e300"])
    return f"({tag}/{amount} {u}{rest}"


def gen_hed_cell(rng, profile):
    x = rng.random()
    if x < 0.12:
        return rng.choice(["n/a", ""]) if profile != "tsv" else "n/a"
    if x < 0.17 and profile != "valid":
        c = rng.choice(DEGENERATE_CELLS)
        return c if (profile != "tsv" or c.strip(" \t")) else "()"      # a .tsv keeps blanks-only cells out of the way
    if x < 0.42:
        return rng.choice(VALID_CELLS)
    if x < 0.47:
        return rng.choice(WARN_CELLS)
    if x < 0.57:
        return rng.choice(INVALID_CELLS) if profile != "valid" else rng.choice(VALID_CELLS)
    if x < 0.65:
        return rng.choice(TEMPORAL_CELLS if profile == "fine" else ROWLEVEL_CELLS)
    if x < 0.78:
        return rng.choice(TEMPORAL_CELLS)
    if x < 0.93:
        k = "int" if profile in ("valid", "exact") and rng.random() < 0.8 else None
        if profile == "fine":    # no sub-second units: an effective time must not fall between two close onsets
            k = rng.choices(["int", "case", "nofactor", "bad", "nounit", "nan"], [55, 15, 8, 8, 7, 7])[0]
        c = delay_cell(rng, k)
        if rng.random() < 0.3:
            c = rng.choice(VALID_CELLS) + ", " + c
        if rng.random() < 0.15:
            c = c + ", " + delay_cell(rng, "int")
        return c
    if x < 0.97:
        return delay_cell(rng, rng.choice(["int", "case", "sub", "nofactor"]), tag="Duration")   # never converted
    return rng.choice(VALID_CELLS) + ", " + rng.choice(VALID_CELLS + INVALID_CELLS)


def gen_case(rng, tier):
    profile = rng.choices(["mixed", "valid", "exact", "tsv", "fine"], [45, 16, 12, 9, 18])[0]
    sidecar = rng.choices(["plain", "refs", "badref"], [70, 22, 8])[0]
    has_onset = rng.random() < 0.85
    hedc = rng.choice([["HED"], ["cat"], ["val"], ["HED", "cat"], ["HED", "val"], ["cat", "val"], ["HED", "cat", "val"],
                       ["HED", "cat", "val"]])
    if sidecar == "refs":
        hedc = rng.choice([["cat", "val"], ["HED", "cat", "val"]])
    cols = (["onset"] if has_onset else []) + hedc
    if rng.random() < 0.15:
        cols = cols + ["extra"]
    rng.shuffle(cols)
    n = rng.choice([1, 2, 2, 3, 3, 3, 4, 4, 5, 6])
    onsets = rng.sample(range(0, 200), n)     # up to 24.875 s: string order differs from numeric order
    if rng.random() < 0.45:
        onsets.sort()
    numeric = False
    onset_texts = [fmt_onset(o / 8.0) for o in onsets]
    if profile == "fine":
        onset_texts = fine_onsets(rng, n)
        if rng.random() < 0.3:
            onset_texts.sort(key=Fraction)
    elif rng.random() < 0.2:
        # numeric spellings as an input dimension: signs, leading zeros, exponent forms, and numbers that are not
        # finite as floats (at most one +inf and one -inf spelling, so that the row is not merged with another)
        onset_texts = [spell_onset(rng, o) for o in onsets]
        if rng.random() < 0.6:
            onset_texts[rng.randrange(n)] = rng.choice(NONFINITE_ONSETS[:5])
        if n > 1 and rng.random() < 0.25:
            k2 = rng.randrange(n)
            if to_float(onset_texts[k2]) not in (float("inf"),):
                onset_texts[k2] = rng.choice(NONFINITE_ONSETS[5:])
        numeric = True
    na_onset = has_onset and rng.random() < 0.08
    related = rng.random() < (0.6 if profile == "fine" else 0.15)
    rows = []
    for k in range(n):
        r = []
        for c in cols:
            if c == "onset":
                r.append("n/a" if (na_onset and rng.random() < 0.4) else onset_texts[k])
            elif c == "HED":
                r.append(gen_hed_cell(rng, profile))
            elif c == "cat":
                r.append(rng.choice(["a", "b", "c", "d", "e", "f", "g", "h", "i", "j", "n/a", "zz", "a", "b", "f"]))
            elif c == "val":
                r.append(rng.choice(VALUES))
            else:
                r.append(rng.choice(["1", "junk", "n/a"]))
        if profile == "tsv":
            r = [x if x != "" else "n/a" for x in r]
        if numeric and "onset" in cols and to_float(r[cols.index("onset")]) in (float("inf"), float("-inf")) \
                and rng.random() < 0.7:
            # something only the row-level / temporal checks see, on the row whose time is not finite
            if "HED" in cols:
                r[cols.index("HED")] = rng.choice(["Red, Red", "(Def/MyDef, Offset)", "(Def/MyDef, Inset)", "(Def/MyDef, Onset)",
                                                   "(Red, Blue), (Red, Blue)", "Blue", "(Delay/1e400 s, (Green, Green))"])
            elif "cat" in cols:
                r[cols.index("cat")] = rng.choice(["d", "e", "i", "a"])
        if related and rng.random() < 0.75:      # markers of ONE definition: their time order matters
            if "HED" in cols:
                r[cols.index("HED")] = rng.choice(["(Def/MyDef, Onset)", "(Def/MyDef, Offset)", "(Def/MyDef, Inset)",
                                                   "(Def/MyDef, Offset), Red", "(Def/mydef, Onset)", "(Def/MYDEF, Offset)",
                                                   "(Def/mydef, Inset)", "(Def/myDef, Offset)",
                                                   "(Delay/1 s, Def/MyDef, Onset)", "(Delay/2 s, Def/MyDef, Offset)",
                                                   "(Delay/0.5 s, Def/MyDef, Offset)", "(Delay/3 seconds, Def/MyDef, Inset)",
                                                   "(Def/MyDef, Onset), (Delay/1.5 s, Def/MyDef, Offset)"])
            elif "cat" in cols:
                r[cols.index("cat")] = rng.choice(["d", "e", "i", "j"])
        rows.append(r)
    if (has_onset and "HED" in cols and n >= 2 and profile not in ("fine",) and not numeric and not na_onset
            and rng.random() < 0.12):
        # a Delay group of one row lands EXACTLY on the onset of another row, and that row (cells clean one by one)
        # has something only the row-level / temporal checks see: it must be reported at that row
        a, b = rng.sample(range(n), 2)
        if onsets[a] > onsets[b]:
            a, b = b, a
        gap = Fraction(onsets[b] - onsets[a], 8)
        spell = repr(float(gap)) + rng.choice([" s", " seconds", " second", " Seconds"])
        ms = float(gap * 1000)
        if ms * 0.001 + onsets[a] / 8.0 == onsets[b] / 8.0 and rng.random() < 0.4:
            spell = (repr(ms) if not ms.is_integer() else str(int(ms))) + rng.choice([" ms", " milliseconds"])
        hi = cols.index("HED")
        rows[a][hi] = rng.choice(["", "Green, ", "Item/Sound, "]) + f"(Delay/{spell}, ({rng.choice(['Red', 'Square', 'Blue'])}))"
        rows[b][hi] = rng.choice(["Red, Red", "(Red, Blue), (Red, Blue)", "(Def/MyDef, Offset)", "(Def/MyDef, Inset)",
                                  "Blue, (Green), Blue"])
    if n <= 3 and rng.random() < 0.5:
        perms = [list(p) for p in itertools.permutations(range(n))][1:]
    else:
        perms = []
        for _ in range(2 if tier == "quick" else 3):
            p = list(range(n))
            rng.shuffle(p)
            if p != list(range(n)):
                perms.append(p)
    return {"cols": cols, "rows": rows, "sidecar": sidecar, "perms": perms, "tsv": profile == "tsv"}


def gen_history(rng, tier):
    """one table on ONE input object: validate, edit cells in place through the public API, validate again ..."""
    while True:
        case = gen_case(rng, tier)
        if [c for c in case["cols"] if c in ("HED", "cat", "val")] and case["rows"]:
            break
    case["perms"] = []
    cols, n = case["cols"], len(case["rows"])
    profile = "tsv" if case["tsv"] else "mixed"
    used = {r[cols.index("onset")] for r in case["rows"]} if "onset" in cols else set()

    def an_edit():
        x = rng.random()
        if "HED" in cols and x < 0.12:
            return [rng.choice(["short", "long"])]
        if "onset" in cols and x < 0.22:
            o = fmt_onset(rng.randrange(0, 200) / 8.0)
            if o not in used:
                used.add(o)
                return ["write", rng.randrange(n), "onset", o]
        c = rng.choice([c for c in cols if c in ("HED", "cat", "val")])
        if c == "HED":
            text = gen_hed_cell(rng, profile)
        elif c == "cat":
            text = rng.choice(["a", "b", "c", "d", "e", "f", "g", "h", "n/a", "zz"])
        else:
            text = rng.choice(VALUES)
        if case["tsv"] and text == "":
            text = "n/a"
        if rng.random() < 0.3:
            return ["write", rng.randrange(n), c, text]
        real = c == "HED" and text in VALID_CELLS and rng.random() < 0.5
        return ["set_cell", rng.randrange(n), c, text, real]

    ops = [["validate"]] if rng.random() < 0.8 else [["read"]]
    for _ in range(rng.randint(1, 3)):
        for _ in range(rng.randint(1, 3)):
            ops.append(an_edit())
        if rng.random() < 0.15:
            ops.append(["read"])
        ops.append(["validate"])
        if rng.random() < 0.1:
            ops.append(["validate"])
    case["ops"] = ops
    return case


def gen_sheet(rng, tier):
    """SpreadsheetInput: tag columns given by number or name, optional value column (column_prefix_dictionary), with a
    header line or WITHOUT one (labels are the numbers 0, 1, ...; the first data row is file row 1)"""
    header = rng.random() < 0.45
    m = rng.choice([1, 2, 2, 3, 3, 4])
    names = rng.sample(["tags_a", "tags_b", "notes", "label", "more_tags"], m)
    with_onset = header and rng.random() < 0.3
    pos = list(range(m))
    ntag = rng.randint(1, m)
    tagpos = sorted(rng.sample(pos, ntag))
    if 0 not in tagpos and rng.random() < 0.6:
        tagpos[0] = 0
        tagpos = sorted(set(tagpos))
    rest = [p for p in pos if p not in tagpos]
    prefix = {}
    if rest and rng.random() < 0.35:
        p = rng.choice(rest)
        prefix[str(p) if not header else names[p]] = rng.choice(["Label/", "Label"])
    cols = list(names)
    tag_columns = [(names[p] if (header and rng.random() < 0.6) else p) for p in tagpos]
    n = rng.choice([1, 2, 2, 3, 3, 4, 5])
    profile = "tsv" if rng.random() < 0.25 else "mixed"
    rows = []
    for _ in range(n):
        r = []
        for p in pos:
            if p in tagpos:
                r.append(gen_hed_cell(rng, profile))
            elif (str(p) in prefix) or (names[p] in prefix):
                r.append(rng.choice(VALUES))
            else:
                r.append(rng.choice(["1", "junk", "n/a", "Red, Red"]))
        if profile == "tsv":
            r = [x if x != "" else "n/a" for x in r]
        rows.append(r)
    perms = []
    if with_onset:
        cols = ["onset"] + cols
        tag_columns = [(t + 1 if isinstance(t, int) else t) for t in tag_columns]
        ons = rng.sample(range(0, 200), n)
        rows = [[fmt_onset(o / 8.0)] + r for o, r in zip(ons, rows)]
        p = list(range(n))
        rng.shuffle(p)
        if p != list(range(n)):
            perms.append(p)
    return {"kind": "sheet", "header": header, "cols": cols, "tag_columns": tag_columns, "prefix": prefix, "rows": rows,
            "sidecar": "plain", "perms": perms, "tsv": profile == "tsv"}


def sheet_corpus():
    cs = []

    def mk(rows, tag_columns, header=False, cols=None, tsv=False, prefix=None):
        cs.append({"kind": "sheet", "header": header, "cols": cols or [f"c{i}" for i in range(len(rows[0]))],
                   "tag_columns": tag_columns, "prefix": prefix or {}, "rows": [list(r) for r in rows], "sidecar": "plain",
                   "perms": [], "tsv": tsv})
    # headerless: a row with a cell issue (numeric column label) AND a row-level issue (no label)
    mk([["Nonsense", "Red, Red"], ["Red", "(Blue"], ["Green", "Green"]], [0, 1])
    mk([["Bad tag!", "Nonsense"], ["Red", "Blue"]], [0, 1], tsv=True)
    mk([["junk", "Red, Red", "x"], ["junk", "Red/", "n/a"]], [1], prefix={"2": "Label/"})
    # with a header line, tag columns by name and by number
    mk([["Nonsense", "Red, Red"], ["Red", "Red"]], ["tags_a", 1], header=True, cols=["tags_a", "tags_b"])
    return cs


def history_corpus():
    cs = []

    def mk(rows, ops, cols=("onset", "HED", "cat", "val"), sidecar="plain", tsv=False):
        cs.append({"cols": list(cols), "rows": [list(r) for r in rows], "sidecar": sidecar, "perms": [], "tsv": tsv,
                   "ops": [list(o) for o in ops]})
    # repair an invalid cell, break a clean one, remove a row-level duplicate: each report describes the current cells
    mk([["1.0", "Red, Blue", "a", "x"], ["2.0", "Green, Nonsense", "b", "n/a"], ["3.0", "Square", "n/a", "n/a"],
        ["4.0", "Red", "a", "n/a"]],
       [["validate"], ["set_cell", 1, "HED", "Green, Blue", False], ["set_cell", 2, "HED", "Bad tag!", False], ["validate"],
        ["set_cell", 3, "cat", "b", False], ["validate"], ["validate"]])
    # reading the assembled frame first, then editing; conversions; an onset edit that makes the file unsorted
    mk([["1.0", "Property/Sensory-property/Sensory-attribute/Visual-attribute/Color/CSS-color/Red-color/Red", "n/a", "n/a"],
        ["2.0", "(Def/MyDef, Onset)", "n/a", "n/a"], ["3.0", "(Def/MyDef, Offset)", "n/a", "n/a"]],
       [["read"], ["short"], ["validate"], ["write", 2, "onset", "0.5"], ["validate"], ["long"], ["validate"]])
    mk([["Red, Red", "a"], ["Blue", "b"]], [["validate"], ["write", 0, "HED", "Red"], ["validate"],
                                           ["set_cell", 1, "HED", "Blue", True], ["validate"]], cols=("HED", "cat"))
    mk([["1.0", "Red", "a", "x"], ["2.0", "Blue", "b", "y"]],
       [["validate"], ["set_cell", 0, "val", "x,y", False], ["set_cell", 1, "cat", "zz", False], ["validate"]], tsv=True)
    return cs


def corpus():
    """Fixed cases first: the refuted witnesses and regression cases."""
    cs = []

    def mk(rows, cols=("onset", "HED", "cat", "val"), sidecar="plain", perms=(), tsv=False):
        cs.append({"cols": list(cols), "rows": [list(r) for r in rows], "sidecar": sidecar,
                   "perms": [list(p) for p in perms], "tsv": tsv})
    # witness 6 (was C07-F1, fixed by f83491d): accepted spelling differing in case -- must validate now
    mk([["1.0", "(Delay/2 Seconds,(Red))", "a", "x"], ["2.0", "Blue", "b", "n/a"]])
    # C07-F2: accepted unit without conversion factor
    mk([["1.0", "(Delay/2 years,(Red))", "a", "x"], ["2.0", "Blue", "b", "n/a"]])
    # C07-F3: value the string validator rejects makes the FILE validator raise instead of reporting
    mk([["1.0", "(Delay/2 S,(Red))", "a", "x"], ["2.0", "Blue", "b", "n/a"]])
    mk([["1.0", "(Delay/abc s,(Red))", "a", "x"]])
    mk([["n/a", "(Delay/1 s,(Red))", "a", "x"], ["2.0", "Blue", "b", "n/a"]])
    # C07-F4: n/a onset: row errors lost / duplicated
    mk([["n/a", "Red, Red", "a", "x"], ["2.0", "Blue", "b", "n/a"]])
    mk([["1.0", "Red, Red", "a", "x"], ["n/a", "Blue, Blue", "b", "n/a"], ["0.5", "Green,Green", "n/a", "n/a"]])
    # C07-F5: unsorted file + curly-brace reference: labels do not follow the rows
    mk([["1.0", "Label/x", "a", "x"], ["2.0", "Label/q", "b", "z"], ["3.0", "Label/w", "b", "y"]], sidecar="refs",
       perms=[[2, 0, 1], [1, 0, 2]])
    # regression: plain cases
    mk([["1.0", "Red", "a", "x"], ["2.0", "Blue, Nonsense", "zz", "n/a"], ["0.5", "(Def/MyDef, Onset)", "n/a", "n/a"]],
       perms=[[2, 0, 1], [1, 2, 0]])
    mk([["1.0", "(Delay/2 s,(Red))", "a", "x"], ["2.0", "Blue", "b", "n/a"]], perms=[[1, 0]])
    mk([["0.0", "(Delay/1 s, Def/MyDef, Onset)", "n/a", "n/a"], ["0.5", "(Def/MyDef, Offset)", "n/a", "n/a"],
        ["2.0", "(Def/MyDef, Offset)", "n/a", "n/a"]], perms=[[2, 1, 0], [1, 0, 2]])
    # a Delay group that lands exactly on another row's onset; that row has a row-level fault and clean cells
    mk([["1.0", "(Delay/1.5 s, (Square))", "n/a", "n/a"], ["2.5", "Blue, (Green), Blue", "n/a", "n/a"],
        ["4.0", "Item/Sound", "n/a", "n/a"]], perms=[[1, 0, 2], [2, 1, 0]])
    # times that are numbers but not finite as floats, on rows that carry row-level / temporal issues
    mk([["1.0", "(Def/MyDef, Onset)", "n/a", "n/a"], ["Infinity", "Red, Red", "n/a", "n/a"], ["2.0", "Blue", "n/a", "n/a"],
        ["-inf", "(Def/MyDef, Offset)", "n/a", "n/a"]], perms=[[1, 3, 0, 2], [3, 2, 1, 0]])
    mk([["+1.5", "(Delay/1e400 s, (Red, Red))", "n/a", "n/a"], ["02.0", "(Delay/1E999 milliseconds, Def/MyDef, Offset)", "n/a", "n/a"],
        ["2.5e0", "(Delay/1e-400 s, (Green))", "a", "n/a"]], perms=[[2, 1, 0]])
    # degenerate but readable cells (empty groups, commas only, blanks only), alone and next to ordinary cells
    mk([["1.0", "(),()", "a", "x"], ["2.0", "()", "b", "n/a"], ["3.0", "(()),(())", "n/a", "n/a"], ["4.0", " ", "a", "n/a"],
        ["5.0", ",", "n/a", "n/a"], ["6.0", "(,)", "n/a", "x"]], perms=[[5, 4, 3, 2, 1, 0]])
    mk([["(),()", "a"], ["((),())", "b"], ["(Red,),(Red,)", "n/a"]], cols=("HED", "cat"))
    # onsets late in a recording that differ by 10 microseconds (equal as float32), out of time order
    mk([["5000.00002", "(Def/MyDef, Offset)", "n/a", "n/a"], ["5000.00001", "(Def/MyDef, Onset)", "n/a", "n/a"],
        ["5000.00003", "(Def/MyDef, Offset)", "n/a", "n/a"]], perms=[[1, 0, 2], [2, 1, 0], [0, 2, 1]])
    mk([["Red, Red", "a"], ["(Def/MyDef, Onset)", "b"], ["(Red", "c"]], cols=("HED", "cat"))
    mk([["1.0", "(Red", "a", "x"], ["2.0", "Nonsense", "a", "n/a"]], perms=[[1, 0]])
    mk([["1.0", "(Red", "Blue)", "x"]], cols=("onset", "HED", "val", "cat"))
    mk([["1.0", "Red", "a", "x"], ["2.0", "Blue", "b", "y"]], tsv=True, perms=[[1, 0]])
    return cs


def spelling_corpus():
    """every accepted spelling of every time unit (key, Capitalised, UPPER) in Delay and Duration groups"""
    cs = []
    for k, (f, sym) in sorted(unit_table().items()):
        for sp in ([k] if sym else [k, k.capitalize(), k.upper()]):
            for tag in ("Delay", "Duration"):
                cs.append({"cols": ["onset", "HED"], "rows": [["4.0", "Blue"], ["1.0", f"({tag}/2 {sp},(Red))"]],
                           "sidecar": "plain", "perms": [], "tsv": False})
    return cs


# ---------------------------------------------------------------- run

def run(tier, seed, res, model_ok=True, proof_ok=True):
    if not FIXED:
        for fid, f in RETIRED.items():
            res.known_ids.setdefault(fid, f)
    rng = random.Random(seed)
    ngen = 400 if tier == "quick" else 4000
    if not proof_ok:
        ngen *= 3
    fixed = corpus() + spelling_corpus()
    nsheet = 120 if tier == "quick" else 1500
    if not proof_ok:
        nsheet *= 3
    cases = fixed + sheet_corpus() + [gen_case(rng, tier) for _ in range(ngen)] + [gen_sheet(rng, tier) for _ in range(nsheet)]
    nhist = 150 if tier == "quick" else 1500
    if not proof_ok:
        nhist *= 3
    hcases = history_corpus() + [gen_history(rng, tier) for _ in range(nhist)]
    with Pool(int(C.JOBS)) as pool:
        s1 = pool.map(stage1, cases, chunksize=8)
        # extracted model
        lines, where = [], []
        for ci, s in enumerate(s1):
            for ti, tb in enumerate(s["tables"]):
                if model_ok and tb.get("line"):
                    where.append((ci, ti))
                    lines.append(tb["line"])
        outs = []
        if model_ok and lines:
            exe = C.build_driver("c07")
            outs = C.run_driver(exe, lines)
        models = [[None] * len(s["tables"]) for s in s1]
        for (ci, ti), o in zip(where, outs):
            models[ci][ti] = o
        s2 = pool.map(stage2, list(zip(s1, models)), chunksize=8)
        # histories on one input object
        s1h = pool.map(stage1_history, hcases, chunksize=4)
        hwhere = [i for i, s in enumerate(s1h) if model_ok and s.get("hline")]
        houts = C.run_driver(C.build_driver("c07"), [s1h[i]["hline"] for i in hwhere]) if hwhere else []
        hmodels = [[None] * len(s["tables"]) for s in s1h]
        for i, o in zip(hwhere, houts):
            reps = [x for x in o[1:] if x[0] != "set"] if o and o[0] == "hist" else []
            hmodels[i] = reps if len(reps) == len(s1h[i]["tables"]) else [["ERR", "history-driver", str(o)[:200]]] * len(s1h[i]["tables"])
        s2 += pool.map(stage2, list(zip(s1h, hmodels)), chunksize=4)
    s1 = s1 + s1h

    disagreements = 0
    corr_cases = 0
    hist = Counter()
    clause_hits = Counter()
    for s, (events, corr) in zip(s1, s2):
        corr_cases += corr
        for kind, clause, payload, detail, fid in events:
            if kind == "corr":
                disagreements += 1
                if fid != "covered":
                    res.violation("correspondence", payload, detail, no_input=True)
            elif kind == "violation":
                res.violation(clause, payload, detail, no_input=True)
            else:
                clause_hits[clause + ("" if fid is None else ":" + fid)] += 1
                res.report(clause, payload, detail, fid=fid)
    # statistics
    evaluations = 0
    distinct = set()
    for s in s1:
        c = s["case"]
        for tb in s["tables"]:
            evaluations += 1
            if "desc" not in tb:
                continue
            d = tb["desc"]
            key = json.dumps([c["cols"], tb["rows"], c["sidecar"]])
            nontrivial = len(tb["rows"]) >= 2 or any(r["dtext"] for r in d["rows"])
            if nontrivial:
                distinct.add(key)
        d0 = s["tables"][0].get("desc")
        if d0:
            hist["rows=%d" % len(d0["rows"])] += 1
            hist["hed_columns=%d" % len(d0["hed_cols"])] += 1
            hist["onset_column" if d0["has_onset"] else "no_onset_column"] += 1
            hist["sidecar=" + c["sidecar"]] += 1
            if any(r["dtext"] for r in d0["rows"]):
                hist["with_delay"] += 1
            if any(any(w in r["series"].casefold() for w in TEMPORAL_WORDS) for r in d0["rows"]):
                hist["with_temporal_marker"] += 1
            if any(any(sv == ERR for cid in [c_[1] for c_ in r["cells"] if not c_[2]] for _cd, sv in d0["basic"][cid])
                   for r in d0["rows"]):
                hist["with_invalid_cell"] += 1
            if any(r["onset"] is None for r in d0["rows"]) and d0["has_onset"]:
                hist["with_na_onset"] += 1
            if not is_sorted(d0) and d0["has_onset"]:
                hist["unsorted"] += 1
            if c.get("tsv"):
                hist["tsv_file"] += 1
            hist["permutations"] += len(c.get("perms", []))
            if c.get("kind") == "sheet":
                hist["spreadsheet_input"] += 1
                if not c["header"]:
                    hist["headerless"] += 1
            if s.get("history"):
                hist["histories"] += 1
                hist["history_validations"] += len(s["tables"])
                hist["history_edits"] += sum(1 for o in c["ops"] if o[0] in ("set_cell", "write", "short", "long"))
        if "exn" in s["tables"][0].get("impl", {}):
            hist["raises"] += 1
    return {
        "evaluations": evaluations,
        "distinct_nontrivial": len(distinct),
        "rule": "corpus (witnesses of C07-F2..F4 and of the repaired C07-F1/F5, regressions) + every time-unit spelling in Delay/Duration groups + "
                f"{ngen} random tables (1-6 rows, 1-3 HED-bearing columns, sidecar with categorical/value columns, onsets either small "
                "dyadic numbers or (18%) decimal strings with large magnitude / tiny differences / many digits / near powers of 2 "
                "and 10, compared exactly as integers of microseconds, "
                "optionally curly-brace references) each with up to 5 row permutations (all permutations for half of "
                "the tables with <=3 rows) + "
                f"{nsheet} SpreadsheetInput tables (tag columns by number or name, optional value column, with or WITHOUT a "
                "header line: numeric column labels, first data row = file row 1; dataframe or .tsv) + "
                f"{len(hcases)} histories on ONE input object (validate / read the assembled frame / set_cell with a "
                "HedString or HedString-like value / write through .dataframe incl. the onset column / "
                "convert_to_short / convert_to_long / validate again, 1-3 rounds); every table, every permuted table and "
                "every validation point of a history is one evaluation; non-trivial = at least two rows or a Delay group",
        "samples": [strip(cases[0]), strip(cases[len(fixed) + 5]), strip(cases[-1])],
        "histogram": dict(hist),
        "oracle_reports": dict(clause_hits),
        "disagreements_checked": disagreements,
        "correspondence_cases": corr_cases,
        "exhaustive": False,
    }


def replay(payload):
    warnings.filterwarnings("ignore")
    case = (payload.get("case") or {}).get("case")
    if not case:
        print("no concrete input in replay:", str(payload.get("detail", ""))[:800])
        return 1
    pc = payload["case"]
    case = dict(case)
    if case.get("ops"):                       # a history on one object: run it again from its first table
        s1 = stage1_history(case)
        models = [None] * len(s1["tables"])
        try:
            if s1.get("hline"):
                o = C.run_driver(C.build_driver("c07"), [s1["hline"]])[0]
                reps = [x for x in o[1:] if x[0] != "set"]
                if len(reps) == len(models):
                    models = reps
        except Exception as e:  # noqa
            print("model not available:", e)
        events, _ = stage2((s1, models))
        print("operations:", case["ops"])
        for tb in s1["tables"]:
            print("step", tb.get("step"), "rows:", tb["rows"])
            print("  object   :", tb.get("impl"))
            print("  fresh    :", tb.get("fresh"))
        bad = 0
        for kind, clause, _payload, detail, fid in events:
            print("FAILS:" if fid in (None, "covered") else f"KNOWN({fid}):", clause, detail)
            if fid is None or kind != "report":
                bad += 1
        return 1 if bad else 0
    case["rows"] = pc.get("rows", case["rows"])
    case["perms"] = []
    if pc.get("shuffled"):
        idx = [case["rows"].index(r) for r in pc["shuffled"]]
        case["perms"] = [idx]
    s1 = stage1(case)
    models = [None] * len(s1["tables"])
    try:
        exe = C.build_driver("c07")
        lines = [tb["line"] for tb in s1["tables"] if tb.get("line")]
        outs = C.run_driver(exe, lines) if lines else []
        it = iter(outs)
        models = [next(it) if tb.get("line") else None for tb in s1["tables"]]
    except Exception as e:  # noqa
        print("model not available:", e)
    events, _ = stage2((s1, models))
    for tb in s1["tables"]:
        print("rows:", tb["rows"])
        print("  implementation:", tb.get("impl"))
    bad = 0
    for kind, clause, _payload, detail, fid in events:
        print("FAILS:" if fid in (None, "covered") else f"KNOWN({fid}):", clause, detail)
        if fid is None or kind != "report":
            bad += 1
    return 1 if bad else 0
