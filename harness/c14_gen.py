"""Translators for property C14 (fail closed = ValueError on any source shape that is not recognised).

  tables_text()   -> text of coq/Gen/ComplianceTables.v, from the CURRENT sources under <REPO>/hed via `ast`:
       * hed/errors/schema_error_messages.py decorators  @hed_error(Class.KIND, default_severity=..., actual_code=...)
         with Class.X resolved through hed/errors/error_types.py        -> Inductive kind, kind_code, kind_sev
       * hed/schema/schema_compliance.py  SchemaValidator.attribute_validators_old / attribute_validators and the
         `range_validators` dict literal of _get_range_validators       -> validators_old / validators_new /
         range_validators : list (str * list validator)
       * hed/schema/hed_schema_constants.py  HedKey / HedKeyOld string constants, character_types keys
  schema_text(sch, name) -> Gallina `rschema` of one schema dict of harness/schema_xml.py (all sections, all attributes)
  env_text(...)   -> Gen/C14_Env.v: known versions (listing of the bundled schema_data directory, what the cache is
                     populated from), id ranges (bundled library_data.json), plural table, loadable schemas
"""
import ast
import json
import os
import re

from harness import common as C

SECTIONS = {"Tags": "SecTags", "UnitClasses": "SecUnitClasses", "Units": "SecUnits",
            "UnitModifiers": "SecUnitModifiers", "ValueClasses": "SecValueClasses",
            "Attributes": "SecAttributes", "Properties": "SecProperties"}

VALIDATOR_FUNCS = {"tag_is_placeholder_check", "tag_is_deprecated_check", "unit_exists", "conversion_factor",
                   "allowed_characters_check", "in_library_check", "attribute_is_deprecated", "is_numeric_value",
                   "tag_exists_base_schema_check"}


def _src(rel):
    p = os.path.join(C.REPO, rel)
    with open(p, encoding="utf8") as f:
        return ast.parse(f.read(), p)


def _class_consts(tree, want=None):
    """{ClassName: {ATTR: str|int}} for simple `NAME = constant` class bodies."""
    out = {}
    for node in tree.body:
        if isinstance(node, ast.ClassDef):
            d = {}
            for st in node.body:
                if isinstance(st, ast.Assign) and len(st.targets) == 1 and isinstance(st.targets[0], ast.Name) \
                        and isinstance(st.value, ast.Constant) and isinstance(st.value.value, (str, int)):
                    d[st.targets[0].id] = st.value.value
            out[node.name] = d
    return out


def _resolve(node, consts, what):
    if isinstance(node, ast.Attribute) and isinstance(node.value, ast.Name):
        cls, at = node.value.id, node.attr
        if cls in consts and at in consts[cls]:
            return cls, at, consts[cls][at]
    raise ValueError(f"C14 translator: cannot resolve {ast.dump(node)[:120]} in {what}")


def error_kinds():
    """[(KIND_ATTR_NAME, published code, 'SevError'|'SevWarning')] in source order."""
    consts = _class_consts(_src("hed/errors/error_types.py"))
    sev_names = {v: k for k, v in consts.get("ErrorSeverity", {}).items()}
    if sev_names != {1: "ERROR", 10: "WARNING"}:
        raise ValueError(f"C14 translator: ErrorSeverity changed: {consts.get('ErrorSeverity')}")
    tree = _src("hed/errors/schema_error_messages.py")
    out, seen = [], set()
    for node in tree.body:
        if not isinstance(node, ast.FunctionDef):
            continue
        decs = [d for d in node.decorator_list]
        if len(decs) != 1 or not isinstance(decs[0], ast.Call) or not isinstance(decs[0].func, ast.Name) \
                or decs[0].func.id != "hed_error":
            raise ValueError(f"C14 translator: function {node.name} in schema_error_messages.py is not a single "
                             f"@hed_error(...)")
        call = decs[0]
        if len(call.args) != 1:
            raise ValueError(f"C14 translator: positional arguments of @hed_error on {node.name}")
        _, kind_attr, kind_val = _resolve(call.args[0], consts, node.name)
        sev, code = "SevError", kind_val
        for kw in call.keywords:
            if kw.arg == "default_severity":
                _, sname, _ = _resolve(kw.value, consts, node.name)
                sev = {"ERROR": "SevError", "WARNING": "SevWarning"}[sname]
            elif kw.arg == "actual_code":
                _, _, code = _resolve(kw.value, consts, node.name)
            else:
                raise ValueError(f"C14 translator: unknown keyword {kw.arg} on {node.name}")
        if kind_attr in seen:
            raise ValueError(f"C14 translator: kind {kind_attr} registered twice")
        seen.add(kind_attr)
        if not isinstance(code, str) or not re.fullmatch(r"[A-Za-z_][A-Za-z0-9_]*", code):
            raise ValueError(f"C14 translator: code {code!r}")
        out.append((kind_attr, code, sev))
    if not out:
        raise ValueError("C14 translator: no schema error kinds found")
    return out


def _validator_term(node, keyc, where):
    """schema_attribute_validators.f | partial(schema_attribute_validators.item_exists_check, section_key=HedSectionKey.X)
    | self._id_validator.verify_tag_id"""
    if isinstance(node, ast.Attribute) and isinstance(node.value, ast.Name) \
            and node.value.id == "schema_attribute_validators":
        if node.attr not in VALIDATOR_FUNCS:
            raise ValueError(f"C14 translator: unknown validator {node.attr} in {where}")
        return "V_" + node.attr
    if isinstance(node, ast.Call) and isinstance(node.func, ast.Name) and node.func.id == "partial":
        if len(node.args) == 1 and isinstance(node.args[0], ast.Attribute) \
                and node.args[0].attr == "item_exists_check" and len(node.keywords) == 1 \
                and node.keywords[0].arg == "section_key":
            v = node.keywords[0].value
            if isinstance(v, ast.Attribute) and isinstance(v.value, ast.Name) and v.value.id == "HedSectionKey" \
                    and v.attr in SECTIONS:
                return f"(V_item_exists_check {SECTIONS[v.attr]})"
    raise ValueError(f"C14 translator: validator expression {ast.dump(node)[:150]} in {where}")


def _validator_dict(node, keyc, where):
    if not isinstance(node, ast.Dict):
        raise ValueError(f"C14 translator: {where} is not a dict literal")
    rows = []
    for k, v in zip(node.keys, node.values):
        _, _, key = _resolve(k, keyc, where)
        if not isinstance(v, ast.List):
            raise ValueError(f"C14 translator: value of {key} in {where} is not a list")
        rows.append((key, [_validator_term(e, keyc, where) for e in v.elts]))
    return rows


def hedkeys():
    tree = _src("hed/schema/hed_schema_constants.py")
    consts = _class_consts(tree)
    for c in ("HedKey", "HedKeyOld"):
        if c not in consts or not consts[c]:
            raise ValueError(f"C14 translator: class {c} missing in hed_schema_constants.py")
    # character_types keys: the dict literal plus later  character_types["x"] = ...
    names = []
    for node in tree.body:
        if isinstance(node, ast.Assign) and len(node.targets) == 1:
            t = node.targets[0]
            if isinstance(t, ast.Name) and t.id == "character_types":
                if not isinstance(node.value, ast.Dict):
                    raise ValueError("C14 translator: character_types is not a dict literal")
                for k in node.value.keys:
                    if not (isinstance(k, ast.Constant) and isinstance(k.value, str)):
                        raise ValueError("C14 translator: character_types key")
                    names.append(k.value)
            elif isinstance(t, ast.Subscript) and isinstance(t.value, ast.Name) and t.value.id == "character_types":
                k = t.slice
                if not (isinstance(k, ast.Constant) and isinstance(k.value, str)):
                    raise ValueError("C14 translator: character_types[...] key")
                if k.value not in names:
                    names.append(k.value)
    if not names:
        raise ValueError("C14 translator: character_types not found")
    # section enum order
    enum = [st.targets[0].id for n in tree.body if isinstance(n, ast.ClassDef) and n.name == "HedSectionKey"
            for st in n.body if isinstance(st, ast.Assign)]
    if enum != list(SECTIONS):
        raise ValueError(f"C14 translator: HedSectionKey members/order changed: {enum}")
    return consts, names


def validator_tables():
    consts, _ = hedkeys()
    tree = _src("hed/schema/schema_compliance.py")
    cls = [n for n in tree.body if isinstance(n, ast.ClassDef) and n.name == "SchemaValidator"]
    if len(cls) != 1:
        raise ValueError("C14 translator: class SchemaValidator not found")
    tabs = {}
    for st in cls[0].body:
        if isinstance(st, ast.Assign) and len(st.targets) == 1 and isinstance(st.targets[0], ast.Name) \
                and st.targets[0].id in ("attribute_validators_old", "attribute_validators"):
            tabs[st.targets[0].id] = _validator_dict(st.value, consts, st.targets[0].id)
    if set(tabs) != {"attribute_validators_old", "attribute_validators"}:
        raise ValueError("C14 translator: attribute_validators tables not found")
    rng = None
    for st in cls[0].body:
        if isinstance(st, ast.FunctionDef) and st.name == "_get_range_validators":
            for s2 in st.body:
                if isinstance(s2, ast.Assign) and isinstance(s2.targets[0], ast.Name) \
                        and s2.targets[0].id == "range_validators":
                    rng = _validator_dict(s2.value, consts, "range_validators")
    if rng is None:
        raise ValueError("C14 translator: range_validators dict not found")
    return tabs["attribute_validators_old"], tabs["attribute_validators"], rng


def cstr(s):
    """Coq term of type str (code points; a readable comment is added for short ASCII identifiers).
    Coq's `string` type is deliberately not used: it would be extracted and shadow OCaml's string."""
    body = "[" + ";".join(str(ord(c)) for c in s) + "]"
    if s and len(s) <= 60 and re.fullmatch(r"[A-Za-z0-9_.,:/#\- ]*", s):
        return f"(*{s}*) {body}"
    return body


def nstr(s):
    return "[" + ";".join(str(ord(c)) for c in s) + "]"


def tables_text():
    kinds = error_kinds()
    old, new, rng = validator_tables()
    consts, ctypes = hedkeys()
    L = ["(* GENERATED by harness/c14_gen.py from hed/errors/schema_error_messages.py, hed/errors/error_types.py,",
         "   hed/schema/schema_compliance.py and hed/schema/hed_schema_constants.py (Python ast).  Do not edit. *)",
         "From Coq Require Import List NArith.",
         "From HV Require Import Base.Str Base.C14Base.",
         "Import ListNotations.",
         "Local Open Scope N_scope.",
         "",
         "(* internal error kinds registered with @hed_error in schema_error_messages.py *)",
         "Inductive kind : Set :=",
         "\n".join(f"| K_{k}" for k, _, _ in kinds) + ".",
         "",
         "(* the code reported to the outside world (actual_code or the kind's own value) *)",
         "Definition kind_code (k : kind) : str :=",
         "  match k with",
         "\n".join(f"  | K_{k} => {cstr(c)}" for k, c, _ in kinds),
         "  end.",
         "",
         "Definition kind_sev (k : kind) : sev :=",
         "  match k with",
         "\n".join(f"  | K_{k} => {s}" for k, _, s in kinds),
         "  end.",
         "",
         "Definition all_kinds : list kind := [" + "; ".join(f"K_{k}" for k, _, _ in kinds) + "].",
         ""]
    for cname in ("HedKey", "HedKeyOld"):
        for k, v in consts[cname].items():
            if isinstance(v, str):
                L.append(f"Definition {cname}_{k} : str := {cstr(v)}.")
    L.append("")

    def tab(name, rows, comment):
        L.append(f"(* {comment} *)")
        L.append(f"Definition {name} : list (str * list validator) := [")
        L.append(";\n".join(f"  ({cstr(k)}, [{'; '.join(v)}])" for k, v in rows))
        L.append("].")
        L.append("")
    tab("validators_old", old, "SchemaValidator.attribute_validators_old (schemas before 8.3.0)")
    tab("validators_new", new, "SchemaValidator.attribute_validators (8.3.0 and later)")
    tab("range_validators", rng, "the range_validators dict of SchemaValidator._get_range_validators")
    L.append("(* keys of hed_schema_constants.character_types *)")
    L.append("Definition character_type_names : list str := [" + "; ".join(cstr(n) for n in ctypes) + "].")
    L.append("")
    return "\n".join(L)


# ------------------------------------------------------------------------------------------------ schema data

def raw_of(sch):
    """schema dict of harness/schema_xml.py -> the raw schema the model takes (python structure).
    attrs: list of [name, None | "v1,v2"] in document order."""
    def ent(e, name=None):
        return [name if name is not None else e["name"],
                [[k, None if v is True else ",".join(v)] for k, v in e["attrs"].items()]]
    return {
        "version": sch["version"], "library": sch["library"], "with_standard": sch["withStandard"],
        "unmerged": bool(sch["unmerged"]),
        "props": [ent(e) for e in sch["properties"]],
        "attrs": [ent(e) for e in sch["schema_attributes"]],
        "mods": [ent(e) for e in sch["unit_modifiers"]],
        "uclasses": [[ent(e), [ent(u) for u in e["units"]]] for e in sch["unit_classes"]],
        "vclasses": [ent(e) for e in sch["value_classes"]],
        "tags": [ent(t, t["long"]) for t in sch["tags"]],
    }


def _coq_entry(e):
    name, attrs = e
    items = ";".join("(" + cstr(k) + ", " + ("VFlag" if v is None else "VStr " + cstr(v)) + ")" for k, v in attrs)
    nm = cstr(name)
    return f"mkE {nm} [{items}]"


def schema_text(raw, defname="schema", source=""):
    L = [f"(* GENERATED by harness/c14_gen.py from {source} (read with xml.etree, independently of hed-python). *)",
         "From Coq Require Import List NArith.",
         "From HV Require Import Base.Str Base.C14Base.",
         "Import ListNotations.",
         "Local Open Scope N_scope.",
         "",
         f"Definition {defname} : rschema := mkS {cstr(raw['version'])} {cstr(raw['library'])} "
         f"{cstr(raw['with_standard'])} {'true' if raw['unmerged'] else 'false'}"]

    def lst(xs):
        return "  [" + ";\n   ".join(xs) + "]"
    L.append(lst([_coq_entry(e) for e in raw["props"]]))
    L.append(lst([_coq_entry(e) for e in raw["attrs"]]))
    L.append(lst([_coq_entry(e) for e in raw["mods"]]))
    L.append(lst([f"mkUC ({_coq_entry(e)}) [{'; '.join(_coq_entry(u) for u in us)}]" for e, us in raw["uclasses"]]))
    L.append(lst([_coq_entry(e) for e in raw["vclasses"]]))
    L.append(lst([_coq_entry(e) for e in raw["tags"]]) + ".")
    L.append("")
    return "\n".join(L)


# ------------------------------------------------------------------------------------------------ environment

VERSION_FILE = re.compile(r"^[hH][eE][dD](_([a-z0-9]+)_)?(\d+\.\d+\.\d+)\.[xX][mM][lL]$")


def vkey(v):
    return tuple(int(x) for x in v.split("."))


def known_versions(directory):
    """{library or "": [versions, newest first]} exactly as hed_cache.get_hed_versions lists a directory
    (plain X.Y.Z versions only; anything else in the directory -> fail closed)."""
    out = {}
    for f in os.listdir(directory):
        m = VERSION_FILE.match(f)
        if m is None:
            if f.lower().endswith(".xml"):
                raise ValueError(f"C14: unrecognised schema file name {f} in {directory}")
            continue
        out.setdefault(m.group(2) or "", []).append(m.group(3))
    return {k: sorted(v, key=vkey, reverse=True) for k, v in out.items()}


def library_ranges(directory):
    p = os.path.join(directory, "library_data", "library_data.json")
    if not os.path.exists(p):
        return {}
    d = json.load(open(p))
    return {k: [int(v["id_range"][0]), int(v["id_range"][1])] for k, v in d.items() if "id_range" in v}


_plural_engine = None


def plural(word):
    """inflect's plural as hed_schema_entry.py configures it (an INPUT of the model, trusted)."""
    global _plural_engine
    if _plural_engine is None:
        import inflect
        _plural_engine = inflect.engine()
        _plural_engine.defnoun("hertz", "hertz")
    return _plural_engine.plural(word)


def ascii_lower(s):
    return "".join(chr(ord(c) + 32) if "A" <= c <= "Z" else c for c in s)


def plural_table(raws):
    out = {}
    for raw in raws:
        for _, us in raw["uclasses"]:
            for u in us:
                w = ascii_lower(u[0])
                if w and w not in out:
                    try:
                        out[w] = plural(w)
                    except Exception:  # noqa  (typeguard refuses "")
                        pass
    return out


def env_text(known, ranges, plurals):
    """Gen/C14_Env.v: what the bundled package knows about released versions (listing of schema_data), the id
    ranges of library_data.json and the inflect plurals of the bundled unit names.  The schemas that
    load_schema_version can load are named by each example itself (Proofs/C14Ex_*.v), so that a kernel evaluation
    only drags in the one or two previous versions it needs."""
    L = ["(* GENERATED by harness/c14_gen.py: the environment of the bundled package -- versions listed in",
         "   hed/schema/schema_data (what the hed cache is populated from), id ranges of library_data.json,",
         "   inflect plurals of the bundled unit names. *)",
         "From Coq Require Import List NArith ZArith.",
         "From HV Require Import Base.Str Base.C14Base.",
         "Import ListNotations.", "Local Open Scope N_scope.", "",
         "Definition known_versions : list (str * list str) := ["
         + "; ".join(f"({cstr(k)}, [{'; '.join(cstr(v) for v in vs)}])" for k, vs in sorted(known.items())) + "].",
         "",
         "Definition id_ranges : list (str * (Z * Z)) := ["
         + "; ".join(f"({cstr(k)}, ({a}%Z, {b}%Z))" for k, (a, b) in sorted(ranges.items())) + "].",
         "",
         "Definition plurals : list (str * str) := ["
         + ";\n  ".join(f"({cstr(k)}, {cstr(v)})" for k, v in sorted(plurals.items())) + "].",
         ""]
    return "\n".join(L)
