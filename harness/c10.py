"""C10 -- Onset/Offset/Inset bookkeeping follows the event history exactly."""
import itertools
import json
import os
import random
import shutil
from collections import Counter
from multiprocessing import Pool

from harness import common as C

PROP = "C10"
# 1 = /repo carries fix commit 29fcd01 for C10-F1 (sort_dataframe_by_onsets is a stable sort): repaired model, full statement.
# 0 = unpatched tree: unrepaired model, the recorded tie order of sort_values is an oracle/model input and the
#     finding class C10-F1 is accepted (needs the C10-F1 entry in known_findings.json).
FIXED = int(os.environ.get("VERIF_C10_FIXED", "1"))
COQ_TARGETS = ["Props/C10.vo", "Extract/ExtractC10.vo"]
DRIVERS = ["c10"]
TRUSTED = [
    "Model/Onset.v is a hand transcription of OnsetValidator.validate_temporal_relations / _handle_onset_or_offset "
    "over abstract time points (list of top-level temporal groups = (anchor kind, extensions of the Def/Def-expand "
    "tags found)); HedString.find_top_level_tags / find_def_tags / HedTag.extension are trusted to deliver that "
    "abstraction (exercised, not proved, by the correspondence run on real HedString objects)",
    "Model/Timeline.v is a hand transcription of df_util.sort_dataframe_by_onsets / split_delay_tags / "
    "_indexed_dict_from_onsets / _filter_by_index_list, BaseInput.needs_sorting and "
    "SpreadsheetValidator._run_onset_checks; pandas (DataFrame construction, .loc append, reset_index, to_numeric) "
    "and HedTag.value_as_default_unit are trusted; since fix commit 29fcd01 (C10-F1) sort_values(kind='stable') is modelled as the "
    "stable insertion sort (pandas' stable sort is trusted to be stable; every recorded sort result is checked to "
    "be order-preserving on each run); VERIF_C10_FIXED=0 selects the unrepaired model whose tie order is an input",
    "SpreadsheetValidator.validate's 'self._onset_validator = OnsetValidator()' is modelled by sv_validate / "
    "validate_seq (a fresh validator per call): C10_files_independent holds by construction of that model and is "
    "NOT a proof about the validator object; that the implementation does so is tested only, by sequences of files validated on ONE SpreadsheetValidator "
    "object, each file compared with the model and the statement run from the empty state",
    "the letter case of TAG NAMES (Delay, Onset/Offset/Inset, Def, Def-expand) is below the model's abstraction: "
    "HedTag.short_base_tag and the case-folded 'delay/' pre-filter of split_delay_tags are trusted to resolve it; "
    "tested only, by generating every tag name in upper / lower / mixed case independently of the definition names",
    "str.casefold is modelled per character: ASCII by rule, the non-ASCII code points of the generators' name "
    "alphabet (sharp s, capital sharp s, final sigma, accented Greek, fi ligature, long s) by Gen/C10Fold.v, "
    "regenerated from CPython's str.casefold on every run; other code points are outside the model",
]
ASSUMPTIONS = [
    "C10_delayed_entry_time, C10_remaining_groups, C10_row_failed_iff and C10_warnings_only_row_takes_part restate "
    "model definitions (documentation of the model, no proof content); whether a Delay value converts to seconds "
    "and the severities of a row's cell issues are INPUTS of the model (tested: schema-derived effective times and "
    "invalid_original_rows are compared on every generated file)",
    "Delay values in any accepted unit spelling enter the model as their value in 1/8 s computed from the schema "
    "XML's conversion factors (read with xml.etree, independent of UnitEntry); prefixes whose factor the XML writes as "
    "'10e..' are left out; the recorded effective onsets of split_df must equal these values exactly",
    "onset and Delay values are exact dyadic numbers (multiples of 1/8 s); the 1e-9 tolerance of "
    "_indexed_dict_from_onsets, float parsing, n/a (NaN) onsets and non-numeric Delay values are not modelled "
    "(Delay units without a conversion to seconds ARE: such a group stays in its row)",
    "a row's basic-check issues enter the model as severities per non-empty HED cell (by construction of the "
    "generated cells, cross-checked on every file against the validator's invalid_original_rows)",
    "structural group errors (ONSET_NO_DEF_TAG_FOUND, ONSET_TOO_MANY_DEFS, ONSET_DEF_UNMATCHED ...) come from "
    "DefValidator.validate_onset_offset and are outside C10; only OFFSET_BEFORE_ONSET, INSET_BEFORE_ONSET and "
    "ONSET_SAME_DEFS_ONE_ROW are compared",
    "the theorems quantify over ALL histories/files of the model (fixed=true = the current code, with fix commit 29fcd01 for C10-F1); the tie to /repo is differential testing "
    "(exhaustive for short histories, random beyond)",
]

KINDS = ["Onset", "Offset", "Inset"]
SUBKINDS = ("OFFSET_BEFORE_ONSET", "INSET_BEFORE_ONSET", "ONSET_SAME_DEFS_ONE_ROW")
# declared name -> content; names with non-ASCII letters whose lower() differs from casefold() (sharp s, final
# sigma, ligature, long s) are legal definition names under 8.3.0
DEFS = [("A", "(Red)"), ("B/#", "(Label/#)"), ("C", "(Blue)"), ("Ma\u00df", "(Red)"),
        ("\u0389\u03c7\u03bf\u03c2", "(Blue)"), ("\u039b\u03cc\u03b3\u03bf\u03c2/#", "(Label/#)"),
        ("\ufb01le", "(Green)"), ("\u017fet", "(Square)")]
DEFS_TEXT = ",".join(f"(Definition/{n},{b})" for n, b in DEFS)
NAMES5 = ["A", "a", "B/1", "B/2", "b/1"]
# spellings of the non-ASCII names: as declared, upper case, case-folded, lower case, mixed
NAMES_U = ["Ma\u00df", "MASS", "ma\u1e9e", "\u0389\u03c7\u03bf\u03c2", "\u0389\u03a7\u039f\u03a3",
           "\u03ae\u03c7\u03bf\u03c3", "\u039b\u03cc\u03b3\u03bf\u03c2/3", "\u039b\u038c\u0393\u039f\u03a3/3",
           "\u03bb\u03cc\u03b3\u03bf\u03c3/4", "\ufb01le", "FILE", "file", "\u017fet", "SET", "Set"]
NAMES_ALL = ["A", "a", "B/1", "B/2", "b/1", "C", "c", "B/x", "B/X", "b/2"] + NAMES_U
FAMILIES = [["A", "a"], ["B/1", "b/1", "B/2", "B/x", "B/X", "b/2"], ["C", "c"], NAMES_U[0:3], NAMES_U[3:6],
            NAMES_U[6:9], NAMES_U[9:12], NAMES_U[12:15]]


def sample_names(rng, kmax):
    """spellings drawn from 1-3 definition families, so that variants of one name meet often."""
    pool = [n for fam in rng.sample(FAMILIES, rng.randint(1, 3)) for n in fam]
    return rng.sample(pool, min(len(pool), rng.randint(1, kmax)))


NAMES_U4 = ["Ma\u00df", "MASS", "\u0389\u03c7\u03bf\u03c2", "\u0389\u03a7\u039f\u03a3"]
DELAYS = [2, 4, 8, 12]          # units of 1/8 s

_st = {}


def translate():
    """coq/Gen/C10Fold.v: CPython's str.casefold for every non-ASCII code point of the name alphabet (fail closed:
    casefold must be a per-character mapping on the alphabet, and the table must cover every such code point)."""
    chars = sorted({c for n in NAMES_ALL + [d for d, _ in DEFS] for c in n if ord(c) > 127})
    for n in NAMES_ALL:
        if n.casefold() != "".join(c.casefold() for c in n):
            raise RuntimeError(f"str.casefold is not per-character on {n!r}")
    if not any(n.lower() != n.casefold() for n in NAMES_ALL):
        raise RuntimeError("alphabet has no name whose lower() differs from casefold()")
    rows = ["  (%d%%N, [%s])" % (ord(c), "; ".join("%d%%N" % ord(x) for x in c.casefold())) for c in chars]
    text = ("(* GENERATED by harness/c10.py translate() from CPython's str.casefold -- do not edit. *)\n"
            "From Coq Require Import List NArith.\nImport ListNotations.\n\n"
            "Definition fold_table : list (N * list N) :=\n  [" + ";\n   ".join(r.strip() for r in rows) + "].\n")
    C.write_if_changed(os.path.join(C.COQ, "Gen", "C10Fold.v"), text)


# ---------------------------------------------------------------- implementation side

def _init():
    """Per-process: schema, definitions, and the three observation hooks (all inside this process only)."""
    if _st:
        return _st
    from hed.schema import load_schema
    from hed.models import DefinitionDict
    from hed.errors.error_reporter import ErrorHandler
    from hed.models import df_util
    from hed.validator import spreadsheet_validator as sv
    from hed.validator.onset_validator import OnsetValidator
    import pandas as pd
    schema = load_schema(os.path.join(C.REPO, "hed/schema/schema_data/HED8.3.0.xml"))
    dd = DefinitionDict(DEFS_TEXT, schema)
    if dd.issues:
        raise RuntimeError("definitions rejected: %r" % dd.issues)
    # (1) remember the TemporalErrors sub-kind on every error object (the published code is the same for all)
    orig_fe = ErrorHandler.format_error

    def fe(error_type, *a, **k):
        r = orig_fe(error_type, *a, **k)
        for o in r:
            o["_kind"] = error_type
        return r
    ErrorHandler.format_error = staticmethod(fe)
    # (2) record the tie order chosen by every sort_dataframe_by_onsets call
    orig_sort = df_util.sort_dataframe_by_onsets
    rec = {"perms": [], "ovs": [], "invalid": None, "times": None}

    def sort_rec(df):
        out = orig_sort(df)
        labels = list(df.index)
        posof = {l: i for i, l in enumerate(labels)}
        perm = [posof[l] for l in out.index]
        keys = [float(x) for x in pd.to_numeric(df["onset"], errors="coerce")]
        stable = all(not (keys[perm[i]] == keys[perm[i + 1]] and perm[i] > perm[i + 1]) for i in range(len(perm) - 1))
        rec["perms"].append((perm, stable))
        rec["times"] = sorted(keys)              # the last call sorts split_df: its onsets are the effective times
        return out
    df_util.sort_dataframe_by_onsets = sort_rec
    # (3) see the OnsetValidator created by the file validator and the rows it skipped
    orig_init = OnsetValidator.__init__

    def ov_init(self, *a, **k):
        orig_init(self, *a, **k)
        rec["ovs"].append(self)
    OnsetValidator.__init__ = ov_init
    orig_roc = sv.SpreadsheetValidator._run_onset_checks

    def roc(self, *a, **k):
        rec["invalid"] = sorted(int(x) for x in self.invalid_original_rows)
        return orig_roc(self, *a, **k)
    sv.SpreadsheetValidator._run_onset_checks = roc
    # Delay texts must denote exactly the dyadic values the model is given
    from hed.models.hed_tag import HedTag
    for d in DELAYS:
        for txt in delay_texts(d):
            v = HedTag(txt, schema).value_as_default_unit()
            if v != d / 8.0:
                raise RuntimeError(f"{txt} -> {v!r}, expected {d / 8.0}")
    for txt in delay_texts("X"):
        if HedTag(txt, schema).value_as_default_unit() is not None:
            raise RuntimeError(f"{txt} converts to seconds")
    from hed.models import Sidecar
    import io
    sidecar = Sidecar(io.StringIO(sidecar_json()))
    _st.update(schema=schema, dd=dd, rec=rec, cache={}, sidecar=sidecar)
    return _st


def _decimal_text(fr):
    """exact decimal text of a Fraction whose denominator is 2^a 5^b, else None."""
    num, den, k = fr.numerator, fr.denominator, 0
    while den % 10 == 0:
        den //= 10; k += 1
    while den % 2 == 0:
        den //= 2; num *= 5; k += 1
    while den % 5 == 0:
        den //= 5; num *= 2; k += 1
    if den != 1:
        return None
    txt = str(num).rjust(k + 1, "0")
    return (txt[:-k] + "." + txt[-k:]).rstrip("0").rstrip(".") if k else txt


def schema_time_factors():
    """Factors of every spelling of a time unit, read from the schema XML with xml.etree -- independent of
    hed-python's UnitEntry tables.  Returns [(spelling, Fraction seconds per unit)] (names in lower case, '+s'
    plurals, SI prefixes only on SI units; symbols with symbol prefixes).  Prefixes whose factor is written
    '10e..' in the XML are left out."""
    import xml.etree.ElementTree as ET
    from fractions import Fraction
    root = ET.parse(os.path.join(C.REPO, "hed/schema/schema_data/HED8.3.0.xml")).getroot()

    def attrs(el):
        return {a.findtext("name"): [v.text for v in a.findall("value")] for a in el.findall("attribute")}
    name_mods, sym_mods = [("", Fraction(1))], [("", Fraction(1))]
    for m in root.find("unitModifierDefinitions"):
        a = attrs(m)
        cf = (a.get("conversionFactor") or [None])[0]
        if cf is None or "e" in cf.lower():
            continue
        (name_mods if "SIUnitModifier" in a else sym_mods).append((m.findtext("name"), Fraction(cf)))
    out = []
    for uc in root.find("unitClassDefinitions"):
        if uc.findtext("name") != "timeUnits":
            continue
        for u in uc.findall("unit"):
            a = attrs(u)
            if "conversionFactor" not in a:
                continue
            f, nm = Fraction(a["conversionFactor"][0]), u.findtext("name")
            mods = (sym_mods if "unitSymbol" in a else name_mods) if "SIUnit" in a else [("", Fraction(1))]
            for pre, pf in mods:
                if "unitSymbol" in a:
                    out.append((pre + nm, f * pf, True))
                else:
                    out += [(pre + nm, f * pf, False), (pre + nm + "s", f * pf, False)]
    if len(out) < 20:
        raise RuntimeError("unrecognised unit tables in the schema XML")
    return out


_spell = []


def delay_spellings():
    """[(text after 'Delay/', delay in 1/8 s)]: every accepted spelling (letter cases of names, plurals, symbols,
    SI prefixes) with values whose product with the schema factor is an exact multiple of 1/8 s."""
    if _spell:
        return _spell
    from fractions import Fraction
    from hed.models.hed_string import HedString
    from hed.validator.hed_validator import HedValidator
    st = _init()
    hv = HedValidator(st["schema"])
    for unit, fac, is_symbol in schema_time_factors():
        variants = [unit] if is_symbol else sorted({unit, unit.capitalize(), unit.upper(),
                                                    unit[:-7] + unit[-7:].capitalize() if "second" in unit else unit})
        k = 0
        for T in (2, 4, 8, 12, 16, 24, 72, 216):
            val = _decimal_text(Fraction(T, 8) / fac)
            if val is None or len(val) > 10 or float(val) * float(fac) != T / 8.0:
                continue
            for v in variants:
                txt = f"{val} {v}"
                iss = hv.run_basic_checks(HedString(f"(Delay/{txt},(Red))", st["schema"]), allow_placeholders=False)
                if not iss:
                    _spell.append((txt, T))
            k += 1
            if k == 2:
                break
    if len({t.split()[1].lower() for t, _ in _spell}) < 12:
        raise RuntimeError(f"too few accepted unit spellings: {_spell}")
    return _spell


def delay_tag_text(delay, dform):
    """dform: 0/1 = the two standard texts, or the spelled value-and-unit text itself."""
    return "Delay/" + dform if isinstance(dform, str) else delay_texts(delay)[dform]


def delay_texts(d):
    if d == "X":        # legal time units without a conversion to seconds: the group stays in its row
        return ["Delay/1 year", "Delay/2 month"]
    return [f"Delay/{d * 125} ms", f"Delay/{d / 8.0} s"]


WARN_TAGS = {1: "Red/Crimsonish", 2: "red", 3: "Temperature/3"}     # TAG_EXTENDED, STYLE_WARNING, UNITS_MISSING
# second HED-bearing column "cat" (categorical, through a sidecar; assembled AFTER the HED column, so it is the
# last cell of a row whenever it is not n/a): key -> (HED text, groups it adds to the row, severities 1=ERROR 0=WARNING)
CAT = {
    "clean": ("Green", [], []),
    "warn": ("Item/Someext", [], [0]),
    "err": ("Badtag", [], [1]),
    "on": ("(Def/C,Onset)", [[None, [0, ["C"], 0], 0]], []),
    "off": ("(Def/c,Offset)", [[None, [1, ["c"], 0], 0]], []),
    "in": ("(Inset,Def/C)", [[None, [2, ["C"], 2], 0]], []),
    "onw": ("(Def/C,Onset,(Red/Crimsonish))", [[None, [0, ["C"], 0], 0]], [0]),
    "dly": ("(Def/C,Delay/1.0 s,Offset)", [[8, [1, ["C"], 0], 1]], []),
    "dx": ("(Def/C,Delay/1 year,Onset)", [[ "X", [0, ["C"], 0], 0]], []),
}


def sidecar_json():
    return json.dumps({"cat": {"HED": {k: v[0] for k, v in CAT.items()}}})


def all_groups(r):
    """top-level groups of the assembled row: HED cell, then cat cell."""
    return r["g"] + (CAT[r["cat"]][1] if r.get("cat") else [])


def cell_sevs(r):
    """severities (1 = ERROR, 0 = WARNING) of the basic-check issues of every non-empty HED cell, in column order."""
    cells = []
    if row_text(r) != "n/a":
        c = [1] * bool(r.get("bad")) + [0] * bool(r.get("warn"))
        c += [0 for g in r["g"] if g[1] is not None and g[1][2] & 8 and g[1][0] != 1]
        c += [0 for g in r["g"] if (g[1] is not None and (g[1][2] >> 4) & 3 == 2) or (len(g) > 3 and g[3] == 2)]
        cells.append(c)
    if r.get("cat"):
        cells.append(list(CAT[r["cat"]][2]))
    return cells


def row_is_failed(r):
    """the row is left out of the bookkeeping: an ERROR among the issues of its last non-empty HED cell."""
    cells = cell_sevs(r)
    return bool(cells) and 1 in cells[-1]


def def_text(name, expand):
    if not expand:
        return "Def/" + name
    base, _, val = name.partition("/")
    body = next(b for n, b in DEFS if n.partition("/")[0].casefold() == base.casefold())
    return f"(Def-expand/{name},{body.replace('#', val)})"


def tag_case(text, tcase):
    """letter case of a TAG NAME (HED tag names are case-insensitive): 0 as in the schema, 1 UPPER, 2 lower, 3 mIXED.
    Only the name before the first '/' is changed, never a definition name or a value."""
    name, sep, rest = text.partition("/")
    lead = ""
    while name.startswith("("):
        lead, name = lead + "(", name[1:]
    name = [name, name.upper(), name.lower(), name[:1].lower() + name[1:2].upper() + name[2:3].lower() + name[3:].upper()][tcase]
    return lead + name + sep + rest


def marker_text(m, delay=None, dform=0, dcase=None):
    """m = [kind, [names], form]; form bit0: Def-expand, bit1: temporal tag first, bit2: inner group, bit3: warning
    in the inner group, bits 4-5: letter case of the tag names Def / Def-expand / Onset / Offset / Inset (and of
    Delay unless dcase says otherwise)."""
    kind, names, form = m
    tcase = (form >> 4) & 3
    parts = [tag_case(def_text(n, form & 1), tcase) for n in names]
    if form & 2:
        parts.insert(0, tag_case(KINDS[kind], tcase))
    else:
        parts.append(tag_case(KINDS[kind], tcase))
    if delay is not None:
        parts.insert(1 if len(parts) > 1 else 0,
                     tag_case(delay_tag_text(delay, dform), tcase if dcase is None else dcase))
    if form & 8 and kind != 1:
        parts.append("(Red/Crimsonish)")          # legal extension inside the inner group: TAG_EXTENDED warning
    elif form & 4 and kind != 1:
        parts.append("(Green)")
    return "(" + ",".join(parts) + ")"


def group_text(g):
    """g = [delay|None, marker|None, dform[, letter case of the Delay tag name]]"""
    delay, m = g[0], g[1]
    dform = g[2] if len(g) > 2 else 0
    dcase = g[3] if len(g) > 3 else None
    if m is not None:
        return marker_text(m, delay, dform, dcase)
    if delay is not None:
        return "(" + tag_case(delay_tag_text(delay, dform), dcase or 0) + ",(Red))"
    return "(Red,Square)"


def tp_text(tp):
    """time point of the direct path: list of markers (None = a group without temporal tag)."""
    return ",".join(marker_text(m) if m is not None else "(Red,Square)" for m in tp)


def _canon_issue(i, hs):
    """(sub-kind, index of the top-level temporal group, first def extension of that group)."""
    from hed.models.model_constants import DefTagNames
    t = i["source_tag"]
    node = t
    while node._parent is not None and node._parent is not hs:
        node = node._parent
    tgroups = [g for g in hs.groups() if any(x.short_base_tag in DefTagNames.TEMPORAL_KEYS for x in g.tags())]
    pos = next((k for k, g in enumerate(tgroups) if g is node), -1)
    defs = node.find_def_tags(include_groups=0) if hasattr(node, "find_def_tags") else []
    name = defs[0].extension if defs else "?"
    return [i["_kind"], pos, name]


def impl_history(h):
    """Drive a fresh OnsetValidator with real HedString objects, one per time point."""
    from hed.models.hed_string import HedString
    from hed.validator.onset_validator import OnsetValidator
    st = _init()
    out = []
    ov = OnsetValidator()
    st["rec"]["ovs"].clear()
    try:
        for tp in h:
            txt = tp_text(tp)
            hs = st["cache"].get(txt)
            if hs is None:
                hs = HedString(txt, st["schema"], st["dd"])
                if len(st["cache"]) < 200000:
                    st["cache"][txt] = hs
            iss = ov.validate_temporal_relations(hs)
            out.append([list(ov._onsets.keys()), [_canon_issue(i, hs) for i in iss if i.get("_kind") in SUBKINDS]])
    except Exception as e:  # noqa
        return {"exn": exn_name(e), "msg": str(e)[:200]}
    return {"trace": out}


def exn_name(e):
    n = type(e).__name__
    return n if n in ("TypeError", "KeyError", "AttributeError", "ValueError", "IndexError", "RecursionError",
                      "HedFileError") else "Other:" + n


def row_text(r):
    parts = []
    if r.get("bad"):
        parts.append("Badtag")
    if r.get("fill"):
        parts.append("Green")
    if r.get("warn"):
        parts.append(WARN_TAGS[r["warn"]])
    parts += [group_text(g) for g in r["g"]]
    return ",".join(parts) if parts else "n/a"


def onset_text(u):
    return repr(u / 8.0)


def table_of(rows, st):
    """(columns, data, sidecar or None) -- the cat column only when some row uses it."""
    if any(r.get("cat") for r in rows):
        return (["onset", "cat", "HED"],
                [[onset_text(r["on"]), r.get("cat") or "n/a", row_text(r)] for r in rows], st["sidecar"])
    return ["onset", "HED"], [[onset_text(r["on"]), row_text(r)] for r in rows], None


def impl_file(case):
    """Full path: TabularInput(...).validate(schema, extra_def_dicts)."""
    import pandas as pd
    from hed.models import TabularInput
    st = _init()
    rec = st["rec"]
    rec["perms"].clear()
    rec["ovs"].clear()
    rec["invalid"] = None
    rows = case["rows"]
    scratch = None
    try:
        cols, data, sidecar = table_of(rows, st)
        if case.get("file"):
            scratch = C.scratch_dir()
            path = os.path.join(scratch, "sub-01_task-x_events.tsv")
            with open(path, "w") as f:
                f.write("\t".join(cols) + "\n" + "".join("\t".join(x) + "\n" for x in data))
            src = path
        else:
            src = pd.DataFrame(data, columns=cols).astype(str)
        issues = TabularInput(src, sidecar=sidecar).validate(st["schema"], extra_def_dicts=st["dd"])
        out = []
        for i in issues:
            if i.get("_kind") in SUBKINDS:
                k, pos, name = _canon_issue(i, i["ec_HedString"])
                out.append([k, int(i["ec_row"]) - 2, pos, name])
        ov = rec["ovs"][-1] if rec["ovs"] else None
        return {"issues": sorted(out), "state": list(ov._onsets.keys()) if ov else None,
                "perms": [[p, s] for p, s in rec["perms"]], "invalid": rec["invalid"], "times": rec["times"],
                "unordered": any(i["code"] == "ONSETS_UNORDERED" for i in issues)}
    except Exception as e:  # noqa
        return {"exn": exn_name(e), "msg": str(e)[:200]}
    finally:
        if scratch:
            shutil.rmtree(scratch, ignore_errors=True)


def impl_seq(case):
    """Several event files validated one after the other with ONE SpreadsheetValidator object."""
    import pandas as pd
    from hed.models import TabularInput
    from hed.validator.spreadsheet_validator import SpreadsheetValidator
    st = _init()
    rec = st["rec"]
    out = []
    try:
        sv = SpreadsheetValidator(st["schema"])
        for rows in case["files"]:
            rec["perms"].clear()
            rec["ovs"].clear()
            rec["invalid"] = None
            cols, data, sidecar = table_of(rows, st)
            tab = TabularInput(pd.DataFrame(data, columns=cols).astype(str), sidecar=sidecar)
            # what BaseInput.validate does, but on the shared validator object
            issues = sv.validate(tab, tab._mapper.get_def_dict(st["schema"], st["dd"]), "f")
            iss = []
            for i in issues:
                if i.get("_kind") in SUBKINDS:
                    k, pos, name = _canon_issue(i, i["ec_HedString"])
                    iss.append([k, int(i["ec_row"]) - 2, pos, name])
            ov = sv._onset_validator
            out.append({"issues": sorted(iss), "state": list(ov._onsets.keys()) if ov else None,
                        "perms": [[p, s2] for p, s2 in rec["perms"]], "invalid": rec["invalid"],
                        "times": rec["times"],
                        "fresh_validators": len(rec["ovs"])})
    except Exception as e:  # noqa
        return {"exn": exn_name(e), "msg": str(e)[:200]}
    return {"files": out}


def impl_one(case):
    if case["t"] == "H":
        return impl_history(case["h"])
    return impl_seq(case) if case["t"] == "S" else impl_file(case)


# ---------------------------------------------------------------- reference of the statement (python, independent)

def key_of(m):
    return m[1][0].casefold() if m is not None and m[1] else None


def effective(tp):
    """markers of one time point that take effect: first use of each name (position, kind, key, name)."""
    seen, eff, reuse = set(), [], []
    tpos = -1
    for m in tp:
        if m is None:
            continue
        tpos += 1
        k = key_of(m)
        if k is None:
            continue
        if k in seen:
            reuse.append((tpos, m[1][0]))
        else:
            seen.add(k)
            eff.append((tpos, m[0], k, m[1][0]))
    return eff, reuse


def is_open(past, k):
    """an Onset of k is open: the last Onset/Offset of k among the effective markers so far is an Onset."""
    for kind, key in reversed(past):
        if key == k and kind != 2:
            return kind == 0
    return False


def ref_history(h):
    """Expected issues per time point, straight from the statement; also the open set after each time point."""
    past, out = [], []
    for tp in h:
        eff, reuse = effective(tp)
        iss = [["ONSET_SAME_DEFS_ONE_ROW", p, n] for p, n in reuse]
        for p, kind, k, n in eff:
            if kind != 0 and not is_open(past, k):
                iss.append(["OFFSET_BEFORE_ONSET" if kind == 1 else "INSET_BEFORE_ONSET", p, n])
        past += [(kind, k) for _, kind, k, _ in eff]
        keys = []
        for _, k in past:
            if k not in keys:
                keys.append(k)
        out.append([sorted(k for k in keys if is_open(past, k)), sorted(iss)])
    return out


def split_entries(rows, order=None):
    idx = order if order is not None else list(range(len(rows)))
    def shifts(g):       # only a Delay that converts to seconds moves its group; year/month groups stay
        return g[0] is not None and g[0] != "X"
    ents = [(rows[i]["on"], i, [g[1] for g in all_groups(rows[i]) if not shifts(g)]) for i in idx]
    for i in idx:
        ents += [(rows[i]["on"] + g[0], i, [g[1]]) for g in all_groups(rows[i]) if shifts(g)]
    return ents


def ref_file(rows, perms=None):
    """Time points by effective time (ties in file order unless the observed tie orders are given), then the
    statement.  Returns sorted [(kind,row,pos,name)], open set."""
    perms = list(perms or [])
    order = None
    ons = [r["on"] for r in rows]
    if any(a > b for a, b in zip(ons, ons[1:])):
        order = perms.pop(0) if perms else sorted(range(len(rows)), key=lambda i: ons[i])
        if sorted(order) != list(range(len(rows))) or any(ons[a] > ons[b] for a, b in zip(order, order[1:])):
            return None, None
    ents = split_entries(rows, order)
    o2 = perms.pop(0) if perms else sorted(range(len(ents)), key=lambda i: ents[i][0])
    if sorted(o2) != list(range(len(ents))):
        return None, None
    ents = [ents[i] for i in o2]
    if any(a[0] > b[0] for a, b in zip(ents, ents[1:])):
        return None, None          # not an ordering by effective time at all: more than a tie order
    tps = []
    for t, i, ms in ents:
        if tps and tps[-1][0] == t:
            tps[-1][2].extend(ms)
        else:
            tps.append([t, i, list(ms)])
    bad = {i for i, r in enumerate(rows) if row_is_failed(r)}      # ERROR in the last HED cell; warnings do not count
    hist = [(i, ms) for _, i, ms in tps if i not in bad]
    exp = ref_history([ms for _, ms in hist])
    iss = sorted([k, i, p, n] for (i, _), (_, il) in zip(hist, exp) for k, p, n in il)
    return iss, (exp[-1][0] if exp else [])


# ---------------------------------------------------------------- model side

def name_sx(n):
    return "(" + " ".join(str(ord(c)) for c in n) + ")"


def marker_sx(m):
    return "(" + " ".join([str(m[0])] + [name_sx(n) for n in m[1]]) + ")"


def perm_sx(p):
    return "N" if p is None else "(" + " ".join(str(i) for i in p) + ")"


def rows_sx(rows):
    out = []
    for r in rows:
        gs = " ".join("(%s %s)" % ("N" if g[0] is None else g[0], "N" if g[1] is None else marker_sx(g[1]))
                      for g in all_groups(r))
        cells = " ".join("(" + " ".join(str(x) for x in c) + ")" for c in cell_sevs(r))
        out.append("(%d (%s) (%s))" % (r["on"], cells, gs))
    return " ".join(out)


def model_line(case, perms=(None, None)):
    if case["t"] == "S":
        return "(S %d %s)" % (FIXED, " ".join("(" + rows_sx(f) + ")" for f in case["files"]))
    if case["t"] == "H":
        return "(H " + " ".join("(" + " ".join(marker_sx(m) for m in tp if m is not None) + ")" for tp in case["h"]) + ")"
    return "(F %d %s %s %s)" % (FIXED, perm_sx(perms[0]), perm_sx(perms[1]), rows_sx(case["rows"]))


def sx_name(x):
    return C.uncps(x)


def model_history(m):
    if m[0] != "ok":
        return {"exn": str(m)}
    return {"trace": [[[sx_name(k) for k in st], [[i[0], int(i[1]), sx_name(i[2])] for i in iss]]
                      for st, iss in m[1:]]}


def model_seq(m):
    if m[0] != "ok":
        return {"exn": str(m)}
    return {"files": [model_file(x) for x in m[1:]]}


def model_file(m):
    if m[0] != "ok":
        return {"exn": m[1] if len(m) > 1 else str(m)}
    iss = sorted([i[0], int(orig), int(i[1]), sx_name(i[2])] for orig, il in m[2] for i in il)
    return {"issues": iss, "state": [sx_name(k) for k in m[1]]}


# ---------------------------------------------------------------- generators

def compositions(seq):
    """all ways of cutting a sequence into consecutive non-empty time points."""
    n = len(seq)
    if n == 0:
        yield []
        return
    for cuts in itertools.product((0, 1), repeat=n - 1):
        out, cur = [], [seq[0]]
        for c, x in zip(cuts, seq[1:]):
            if c:
                out.append(cur)
                cur = [x]
            else:
                cur.append(x)
        out.append(cur)
        yield out


def rand_marker(rng, names, malformed=0.0):
    x = rng.random()
    if x < malformed:
        y = rng.random()
        if y < 0.35:
            return [rng.randrange(3), [], rng.choice([0, 2])]                       # (Onset) without Def
        if y < 0.7:
            return [rng.randrange(3), [rng.choice(names), rng.choice(names)], rng.choice([0, 2])]   # two Defs
        return None                                                                 # plain group
    form = rng.randrange(8)
    if rng.random() < 0.3:
        form |= rng.randrange(1, 4) << 4          # tag names in another letter case
    return [rng.randrange(3), [rng.choice(names)], form]


def gen_random_histories(rng, n, malformed):
    out = []
    for _ in range(n):
        names = sample_names(rng, 5)
        h = [[rand_marker(rng, names, malformed) for _ in range(rng.choice([1, 1, 1, 2, 2, 3, 4]))]
             for _ in range(rng.randint(1, 9))]
        out.append({"t": "H", "h": h})
    return out


def gen_random_files(rng, n, malformed=0.0, unsorted=False):
    out = []
    spell = delay_spellings()
    for _ in range(n):
        names = sample_names(rng, 4)
        t = rng.choice([0, 4, 8])
        rows = []
        pdelay = rng.choice([0.0, 0.15, 0.3, 0.5])
        pwarn = rng.choice([0.0, 0.0, 0.3, 0.6])         # legal rows that draw warnings
        pcat = rng.choice([0.0, 0.0, 0.0, 0.4])          # a second HED-bearing column
        for _ in range(rng.randint(1, 8)):
            if rows and rng.random() < 0.55:
                t += rng.choice([2, 4, 4, 8, 12])
            gs = []
            for _ in range(rng.choice([0, 1, 1, 1, 2, 2, 3])):
                m = rand_marker(rng, names, malformed)
                if m is not None and len(m[1]) == 1 and rng.random() < pwarn / 2:
                    m[2] |= 8                            # extension inside the marker's inner group
                d = rng.choice(DELAYS + ["X", "X"]) if rng.random() < pdelay else None
                df = rng.randrange(2)
                if d is not None and d != "X" and rng.random() < 0.6:      # any accepted spelling of a time unit
                    df, d = rng.choice(spell)
                g = [d, m, df]
                if d is not None and rng.random() < 0.3:
                    g.append(rng.randrange(4))            # letter case of the Delay tag name, independent of the marker's
                gs.append(g)
            row = {"on": t, "g": gs, "fill": int(rng.random() < 0.2),
                   "bad": int(rng.random() < malformed * 0.5)}
            if rng.random() < pwarn:
                row["warn"] = rng.choice([1, 2, 3])
            if rng.random() < pcat:
                row["cat"] = rng.choice(sorted(CAT) if malformed else [k for k in sorted(CAT) if k != "err"])
            rows.append(row)
        if unsorted and len(rows) > 1:
            rng.shuffle(rows)
        out.append({"t": "F", "rows": rows, "file": int(rng.random() < 0.05)})
    return out


def focused_files():
    """Two families that must be dense in every run.
    (a) a legal row that only draws a WARNING carries the Onset / Offset that a later Inset / Offset depends on;
    (b) a row with several Delay groups of which some have a unit without a conversion to seconds."""
    out = []
    on_a, off_a, in_a = [0, ["A"], 0], [1, ["a"], 0], [2, ["A"], 2]
    probes = [{"on": 40, "g": [[None, in_a, 0]]}, {"on": 48, "g": [[None, off_a, 0]]},
              {"on": 56, "g": [[None, [1, ["A"], 0], 0]]}]
    for kind in (0, 1):
        for wv in ({"warn": 1}, {"warn": 2}, {"warn": 3}, {"form8": 1}, {"cat": "warn"}, {"cat": "onw"},
                   {"cat": "clean", "warn": 1}, {"cat": "clean", "bad": 1}, {"cat": "err"}):
            for delay in (None, 8, "X"):
                m = [kind, ["A"], 4 | (8 if wv.get("form8") and kind == 0 else 0)]
                row = {"on": 16, "g": [[delay, m, 1]]}
                row.update({k: v for k, v in wv.items() if k != "form8"})
                if wv.get("form8") and kind == 1:
                    row["g"].append([None, [0, ["B/1"], 12], 0])     # the warning sits in a sibling marker group
                pre = [{"on": 8, "g": [[None, on_a, 0]]}] if kind == 1 else []
                out.append({"t": "F", "file": 0, "rows": pre + [row] + probes})
    import itertools as it
    for ds in it.permutations(["X", 8, None]):
        for kinds in it.product((0, 1), repeat=3):
            gs = [[d, [k, [n], 0], j % 2] for j, (d, k, n) in enumerate(zip(ds, kinds, ("A", "B/1", "C")))]
            rows = [{"on": 8, "g": [[None, [0, ["A"], 0], 0], [None, [0, ["b/1"], 0], 0], [None, [0, ["c"], 0], 0]]},
                    {"on": 16, "g": gs},
                    {"on": 20, "g": [[None, [2, ["a"], 0], 0], [None, [2, ["B/1"], 0], 0], [None, [2, ["C"], 0], 0]]},
                    {"on": 32, "g": [[None, [1, ["A"], 0], 0], [None, [1, ["b/1"], 0], 0], [None, [1, ["c"], 0], 0]]}]
            out.append({"t": "F", "file": 0, "rows": rows})
            out.append({"t": "F", "file": 0, "rows": rows[1:]})
    # (c) every accepted spelling of a time unit (names in any case, plurals, symbols, SI prefixes): a delayed
    #     Onset / Offset with Insets just before and just after its effective time (schema factors)
    for j, (txt, T) in enumerate(delay_spellings()):
        first = [[T, [0, ["A"], 0], txt]] if j % 2 == 0 else [[None, [0, ["A"], 0], 0], [T, [1, ["a"], 2], txt]]
        out.append({"t": "F", "file": 0, "rows": [
            {"on": 8, "g": first}, {"on": 8 + T - 1, "g": [[None, [2, ["a"], 0], 0]]},
            {"on": 8 + T + 1, "g": [[None, [2, ["A"], 0], 0]]}, {"on": 400, "g": [[None, [1, ["A"], 0], 0]]}]})
    # (c') tag NAMES (Delay, Onset/Offset/Inset, Def, Def-expand) in every letter case, independently of each other
    for mcase in range(4):
        for dcase in range(4):
            for j, (dly, df) in enumerate([(8, 0), (8, 1), (16, "2 Seconds"), ("X", 0)]):
                for expand in (0, 1):
                    form = (mcase << 4) | expand | (2 if j % 2 else 0)
                    first = ([[dly, [0, ["A"], form], df, dcase]] if (mcase + dcase + j) % 2 == 0 else
                             [[None, [0, ["A"], form], 0], [dly, [1, ["a"], form], df, dcase]])
                    T = dly if dly != "X" else 0
                    out.append({"t": "F", "file": 0, "rows": [
                        {"on": 8, "g": first}, {"on": 8 + max(T - 1, 1), "g": [[None, [2, ["a"], mcase << 4], 0]]},
                        {"on": 8 + T + 1, "g": [[None, [2, ["A"], 0], 0]]},
                        {"on": 8 + T + 1, "g": [[T or None, [1, ["A"], form | 2], 1, dcase]]},
                        {"on": 400, "g": [[None, [1, ["A"], (mcase << 4) | 1], 0]]}]})
    # (d) definition names with letters whose lower() differs from casefold(): every combination of spellings
    for fam in (NAMES_U[0:3], NAMES_U[3:6], NAMES_U[6:9], NAMES_U[9:12], NAMES_U[12:15]):
        for j, (s1, s2, s3) in enumerate(it.product(fam, repeat=3)):
            d = [None, 4, None][j % 3]
            rows = [{"on": 8, "g": [[d, [0, [s1], (j % 2) * 2], 1]]}, {"on": 16, "g": [[None, [2, [s2], 4], 0]]},
                    {"on": 24, "g": [[None, [1, [s3], 0], 0]]}, {"on": 24 if j % 4 == 3 else 32, "g": [[None, [1, [s1], 0], 0]]}]
            out.append({"t": "F", "file": 0, "rows": rows})
    for ds in it.product(["X", 4, 12], repeat=2):          # two Delay groups of one name: year first / seconds first
        rows = [{"on": 8, "g": [[ds[0], [0, ["A"], 0], 0], [ds[1], [1, ["A"], 0], 1]]},
                {"on": 10, "g": [[None, [2, ["a"], 0], 0]]}, {"on": 16, "g": [[None, [2, ["a"], 0], 0]]},
                {"on": 24, "g": [[None, [1, ["a"], 0], 0]]}]
        out.append({"t": "F", "file": 0, "rows": rows})
    return out


def exhaustive_files():
    """every 1-2 marker file over {A,a,B/1}: same row / same onset / later onset, each marker delayed or not."""
    marks = [[k, [n], 0] for k in range(3) for n in ("A", "a", "B/1")]
    out = []
    for m1 in marks:
        for m2 in marks:
            for d1 in (None, 4):
                for d2 in (None, 4, 8):
                    for lay in range(4):
                        if lay == 0:
                            rows = [{"on": 8, "g": [[d1, m1, 0], [d2, m2, 0]]}]
                        else:
                            rows = [{"on": 8, "g": [[d1, m1, 0]]}, {"on": 8 + [0, 4, 8][lay - 1], "g": [[d2, m2, 1]]}]
                        rows.append({"on": 24, "g": [[None, [1, ["A"], 0], 0], [None, [2, ["b/1"], 0], 0]]})
                        out.append({"t": "F", "rows": rows, "file": 0})
    return out


def seq_cases(rng, n):
    """Several files for ONE SpreadsheetValidator object: a file that ends with scopes open, then a file that
    starts with Offset/Inset of those names (case / value variants), optionally a third one."""
    fams = [["A", "a"], ["B/1", "b/1", "B/2"], ["C", "c"], NAMES_U[0:3], NAMES_U[3:6], NAMES_U[6:9]]
    out = []
    # every (name left open) x (Offset|Inset of a spelling of it or of another name), as one-row files
    for fam in fams:
        for x in fam:
            for y in fam + [fams[(fams.index(fam) + 1) % len(fams)][0]]:
                for k in (1, 2):
                    out.append({"t": "S", "files": [[{"on": 8, "g": [[None, [0, [x], 0], 0]]}],
                                                    [{"on": 4, "g": [[None, [k, [y], 0], 0]]}]]})
    out.append({"t": "S", "files": [[{"on": 8, "g": [[None, [0, ["A"], 0], 0]]}],
                                    [{"on": 8, "g": [[None, [0, ["B/1"], 0], 0]]}],
                                    [{"on": 8, "g": [[None, [1, ["a"], 0], 0], [None, [2, ["b/1"], 0], 0]]}]]})
    for _ in range(n):
        names = sample_names(rng, 4)
        files = []
        for fno in range(rng.choice([2, 2, 3])):
            t = rng.choice([0, 4, 8])
            rows = []
            for rno in range(rng.randint(1, 4)):
                if rows and rng.random() < 0.6:
                    t += rng.choice([2, 4, 8])
                gs = []
                for _ in range(rng.choice([1, 1, 2, 3])):
                    m = rand_marker(rng, names)
                    if fno == 0 and rng.random() < 0.6:
                        m[0] = 0                     # first file: mostly Onsets, so scopes stay open
                    if fno > 0 and rno == 0 and rng.random() < 0.7:
                        m[0] = rng.choice([1, 2])    # later files start with Offset / Inset
                    d = rng.choice(DELAYS) if rng.random() < 0.15 else None
                    gs.append([d, m, rng.randrange(2)])
                rows.append({"on": t, "g": gs, "fill": int(rng.random() < 0.2)})
            files.append(rows)
        out.append({"t": "S", "files": files})
    return out


CORPUS = [
    # Offset after re-Onset, Inset after Offset, same name with another value, case variants
    {"t": "H", "h": [[[0, ["A"], 0]], [[0, ["a"], 0]], [[1, ["A"], 0]], [[2, ["a"], 0]], [[1, ["A"], 0]]]},
    {"t": "H", "h": [[[0, ["B/1"], 0]], [[1, ["B/2"], 0], [2, ["b/1"], 0]], [[1, ["B/1"], 1]], [[2, ["B/1"], 0]]]},
    # two / three markers for one name at one time point
    {"t": "H", "h": [[[0, ["A"], 0], [1, ["a"], 0], [0, ["A"], 2]], [[1, ["A"], 0]]]},
    {"t": "H", "h": [[[1, ["A"], 0], [0, ["A"], 0]], [[1, ["A"], 0]]]},
    # groups without Def / with two Defs / without temporal tag
    {"t": "H", "h": [[[0, [], 0], [0, ["A", "B/1"], 0], None, [1, ["a"], 0]], [[2, ["B/1"], 0]]]},
    # file: equal onsets merge, issues land on the first row of the time point
    {"t": "F", "file": 0, "rows": [{"on": 8, "g": [[None, [0, ["A"], 0]]]}, {"on": 16, "g": [[None, [1, ["a"], 0]]]},
                                   {"on": 24, "g": [[None, [1, ["A"], 0]]]}, {"on": 24, "g": [[None, [2, ["B/1"], 0]]]}]},
    # file: Delay moves an Offset to 3.0 s, Delay of an Onset past a later Inset
    {"t": "F", "file": 1, "rows": [{"on": 8, "g": [[None, [0, ["A"], 0]], [16, [1, ["A"], 0], 1]]},
                                   {"on": 16, "g": [[None, [1, ["a"], 0]]]}, {"on": 28, "g": [[None, [1, ["A"], 0]]]}]},
    {"t": "F", "file": 0, "rows": [{"on": 8, "g": [[20, [0, ["A"], 0], 1]]}, {"on": 16, "g": [[None, [2, ["a"], 0]]]},
                                   {"on": 28, "g": [[None, [1, ["A"], 0]]]}]},
    # file: a failed row hides the time point it starts
    {"t": "F", "file": 0, "rows": [{"on": 8, "bad": 1, "g": [[None, [0, ["A"], 0]], [8, [0, ["B/1"], 0], 0]]},
                                   {"on": 16, "g": [[None, [1, ["B/1"], 0]]]}, {"on": 24, "g": [[None, [1, ["A"], 0]]]}]},
]

# C10-F1 witness: time-ordered file; rows 2,3,4 share onset 2.5 s and a Delay group elsewhere makes
# split_delay_tags re-sort the table with pandas' default (unstable) quicksort.
F1_WITNESS = {"t": "F", "file": 0, "rows": [
    {"on": 4, "g": [[None, None], [8, None, 1], [12, None, 1]]},
    {"on": 12, "g": [[None, None], [8, None, 1]]},
    {"on": 20, "g": [[None, [0, ["A"], 0]]]},
    {"on": 20, "g": [[None, [1, ["A"], 0]]]},
    {"on": 20, "g": [[None, None], [12, None, 1], [4, None, 1]]},
    {"on": 40, "g": [[None, [1, ["a"], 0]]]}]}


# ---------------------------------------------------------------- oracle

def is_sorted_file(case):
    ons = [r["on"] for r in case["rows"]]
    return all(a <= b for a, b in zip(ons, ons[1:]))


def times_ok(rows, fr):
    """every row and every Delay-shifted group takes effect at onset (+ delay, by the schema's own factors)."""
    want = sorted(e[0] / 8.0 for e in split_entries(rows))
    return fr.get("times") == want, want


def oracle(case, r, res):
    """Clauses of the statement on the implementation's behaviour.  Returns True when a failure was reported."""
    if "exn" in r:
        res.report("never-raises", case, f"{r['exn']}: {r.get('msg')}")
        return True
    for rows, fr in ([(case["rows"], r)] if case["t"] == "F" else
                     list(zip(case["files"], r["files"])) if case["t"] == "S" else []):
        ok, want = times_ok(rows, fr)
        if not ok:
            res.report("delay-effective-time", case, f"effective times impl={fr.get('times')} schema={want}")
            return True
    if case["t"] == "H":
        exp = ref_history(case["h"])
        got = [[sorted(st), sorted(iss)] for st, iss in r["trace"]]
        if got != exp:
            k = next(i for i, (a, b) in enumerate(zip(got, exp)) if a != b)
            clause = classify(got[k][1], exp[k][1]) if got[k][1] != exp[k][1] else "open-scope-set"
            res.report(clause, case, f"time point {k}: impl={got[k]} statement={exp[k]}")
            return True
        return False
    if case["t"] == "S":
        # every file is a history of its own: it starts with no scope open, whatever the same SpreadsheetValidator
        # object validated before (sequences are generated time-ordered, without failed rows)
        for k, (rows, fr) in enumerate(zip(case["files"], r["files"])):
            if FIXED and any(not st for _, st in fr["perms"]):
                res.report("effective-time-order", case, f"file {k}: tie_orders={fr['perms']}")
                return True
            exp_iss, exp_open = ref_file(rows)
            if fr["issues"] != exp_iss or sorted(fr["state"] or []) != exp_open:
                carried = sorted(r["files"][k - 1]["state"] or []) if k else []
                res.report("each-file-starts-with-no-open-scope" if k else classify(fr["issues"], exp_iss), case,
                           f"file {k} (after a file that left {carried} open): impl={fr['issues']} "
                           f"open={fr['state']} statement={exp_iss} open={exp_open}")
                return True
        return False
    # files: the statement speaks about time-ordered files; a time point that starts with a row that failed the
    # basic checks is skipped ("Skip rows that had issues", _run_onset_checks) -- the reference does the same
    if FIXED and any(not st for _, st in r["perms"]):
        # the repaired sort must keep rows with equal (effective) onsets in their order -- on every file
        res.report("effective-time-order", case, f"sort_dataframe_by_onsets did not preserve the order of equal "
                                                 f"onsets: tie_orders={r['perms']}")
        return True
    if not is_sorted_file(case):
        return False
    has_bad = any(row_is_failed(x) for x in case["rows"])
    exp_iss, exp_open = ref_file(case["rows"])
    if r["issues"] != exp_iss or sorted(r["state"] or []) != exp_open:
        perms = [p for p, _ in r["perms"]]
        unstable = any(not s for _, s in r["perms"])
        fid = None
        if unstable and not FIXED:
            # known class C10-F1: the ONLY deviation is the tie order pandas chose among equal effective onsets
            alt_iss, alt_open = ref_file(case["rows"], perms)
            if r["issues"] == alt_iss and sorted(r["state"] or []) == alt_open:
                fid = "C10-F1"
        clause = "effective-time-order" if (fid or unstable) else ("failed-row-time-points-skipped" if has_bad else
                                                                  classify(r["issues"], exp_iss))
        res.report(clause, case, f"impl={r['issues']} open={r['state']} statement={exp_iss} open={exp_open} "
                                 f"tie_orders={r['perms']}", fid=fid)
        return True
    return False


def classify(got, exp):
    g, e = Counter(map(json.dumps, got)), Counter(map(json.dumps, exp))
    diff = list((g - e).elements()) + list((e - g).elements())
    if any("SAME_DEFS" in d for d in diff):
        return "same-name-once-per-extra-use"
    return "unmatched-iff-not-open"


# ---------------------------------------------------------------- run

def exh_specs(tier):
    """(names, number of markers) families enumerated exhaustively (every grouping into time points)."""
    if tier == "small":      # VERIF_C10_BUDGET=small: reduced volume for mutation self-tests on a loaded machine
        return [(NAMES5, 1), (NAMES5, 2), (NAMES5[:4], 3), (NAMES_U4, 1), (NAMES_U4, 2)], \
            "all histories of <=2 markers over {Onset,Offset,Inset}x{A,a,B/1,B/2,b/1}, of 3 markers over " \
            "{A,a,B/1,B/2} and of <=2 markers over {Mass-sharp-s, MASS, Echos-final-sigma, ECHOS}, each with every " \
            "grouping into time points"
    if tier == "quick":
        return [(NAMES5, 1), (NAMES5, 2), (NAMES5, 3), (NAMES5[:4], 4), (NAMES_U4, 1), (NAMES_U4, 2), (NAMES_U4, 3)], \
            "all histories of <=3 markers over {Onset,Offset,Inset}x{A,a,B/1,B/2,b/1}, of 4 markers over " \
            "{A,a,B/1,B/2} and of <=3 markers over the non-ASCII spellings {Mass-sharp-s, MASS, Echos-final-sigma, " \
            "ECHOS}, each with every grouping into time points"
    return [(NAMES5, 1), (NAMES5, 2), (NAMES5, 3), (NAMES5, 4), (NAMES5[:4], 5), (NAMES5[:3], 6),
            (NAMES_U4, 1), (NAMES_U4, 2), (NAMES_U4, 3), (NAMES_U4, 4)], \
        "all histories of <=4 markers over {Onset,Offset,Inset}x{A,a,B/1,B/2,b/1}, of 5 markers over " \
        "{A,a,B/1,B/2}, of 6 markers over {A,a,B/1} and of <=4 markers over the non-ASCII spellings {Mass-sharp-s, " \
        "MASS, Echos-final-sigma, ECHOS}, each with every grouping into time points"


def exh_slice(names, n, prefix):
    marks = [[k, [nm], 0] for k in range(3) for nm in names]
    head = [marks[i] for i in prefix]
    for tail in itertools.product(marks, repeat=n - len(prefix)):
        for comp in compositions(head + list(tail)):
            yield {"t": "H", "h": comp}


def exh_tasks(specs):
    out = []
    for names, n in specs:
        m = 3 * len(names)
        k = 0 if n < 3 else (1 if n < 5 else n - 3)
        for prefix in itertools.product(range(m), repeat=k):
            out.append({"kind": "exh", "names": names, "n": n, "prefix": list(prefix)})
    return out


def in_exh_domain(c, specs):
    if c["t"] != "H":
        return False
    ms = [m for tp in c["h"] for m in tp]
    if any(m is None or m[2] != 0 or len(m[1]) != 1 for m in ms):
        return False
    used = {m[1][0] for m in ms}
    return any(len(ms) == n and used <= set(names) for names, n in specs)


def nontrivial(c):
    if c["t"] == "S":
        return len(c["files"]) >= 2
    if c["t"] == "H":
        ms = [m for tp in c["h"] for m in tp if m is not None]
    else:
        ms = [g[1] for r in c["rows"] for g in all_groups(r) if g[1] is not None]
    return len(ms) >= 2 and any(m[0] != 0 for m in ms)


class _Collect:
    def __init__(self):
        self.items = []

    def report(self, clause, case, detail="", fid=None):
        self.items.append((clause, case, detail, fid))


def work(task):
    """One worker task: cases -> implementation, statement oracle, extracted model, comparison."""
    import hashlib
    cases = list(exh_slice(task["names"], task["n"], task["prefix"])) if task["kind"] == "exh" else task["cases"]
    exe = task.get("exe")
    impl = [impl_one(c) for c in cases]
    col = _Collect()
    failed = set()
    for idx, (c, r) in enumerate(zip(cases, impl)):
        if oracle(c, r, col):
            failed.add(idx)
    corr = []
    disagreements = 0
    f1_checked = 0
    if exe:
        def perms_for(c, r):
            if not FIXED and c["t"] == "F" and "exn" not in r and not is_sorted_file(c) and len(r["perms"]) == 2:
                return (r["perms"][0][0], r["perms"][1][0])       # outside the statement: replay the tie orders
            return (None, None)
        mod = C.run_driver(exe, [model_line(c, perms_for(c, r)) for c, r in zip(cases, impl)], shards=1)
        redo = []
        for idx, (c, r, m) in enumerate(zip(cases, impl, mod)):
            if "exn" in r:
                if idx not in failed:
                    corr.append((c, f"impl raised {r}"))
                continue
            if c["t"] == "H":
                mm = model_history(m)
                ok = mm.get("trace") == r["trace"]
            elif c["t"] == "S":
                mm = model_seq(m)
                ok = ("files" in mm and len(mm["files"]) == len(r["files"]) and
                      all(a.get("issues") == b["issues"] and a.get("state") == b["state"] and b["fresh_validators"] == 1
                          for a, b in zip(mm["files"], r["files"])))
            else:
                mm = model_file(m)
                ok = mm.get("issues") == r["issues"] and mm.get("state") == r["state"]
                want_inv = sorted(i for i, x in enumerate(c["rows"]) if row_is_failed(x))
                if r["invalid"] != want_inv:
                    ok = False
                    mm["invalid_rows_expected"] = want_inv
                nper = 1 if is_sorted_file(c) else 2
                if len(r["perms"]) != nper or r["unordered"] != (nper == 2):
                    ok = False
                    mm["sort_calls_expected"] = nper
            if ok:
                continue
            if not FIXED and c["t"] == "F" and is_sorted_file(c) and any(not s for _, s in r["perms"]):
                redo.append(idx)          # tie order not preserved: re-run the model with the observed order
                continue
            disagreements += 1
            if idx not in failed:
                corr.append((c, f"impl={r} model={mm}"))
        if redo:
            mod2 = C.run_driver(exe, [model_line(cases[i], (None, impl[i]["perms"][0][0])) for i in redo], shards=1)
            for i, m in zip(redo, mod2):
                f1_checked += 1
                mm = model_file(m)
                if not (mm.get("issues") == impl[i]["issues"] and mm.get("state") == impl[i]["state"]):
                    disagreements += 1
                    corr.append((cases[i], f"with observed tie order: impl={impl[i]} model={mm}"))
    h = Counter()
    nfile = sum(1 for c in cases if c["t"] == "F")
    nseq = sum(1 for c in cases if c["t"] == "S")
    h["direct_histories"] = len(cases) - nfile - nseq
    h["event_files"] = nfile
    h["multi_file_sequences"] = nseq
    for c, r in zip(cases, impl):
        if c["t"] == "S":
            fl = r.get("files", [])
            h["sequences_with_scope_left_open_then_used"] += any(
                fl[k - 1]["state"] and fl[k]["issues"] for k in range(1, len(fl)))
            continue
        if c["t"] == "F":
            h["files_with_delay"] += any(g[0] is not None for x in c["rows"] for g in all_groups(x))
            h["files_with_unconvertible_delay"] += any(g[0] == "X" for x in c["rows"] for g in all_groups(x))
            h["files_with_warning_only_rows"] += any(0 in sum(cell_sevs(x), []) and not row_is_failed(x) for x in c["rows"])
            h["files_with_second_hed_column"] += any(x.get("cat") for x in c["rows"])
            h["files_with_equal_onsets"] += len({x["on"] for x in c["rows"]}) < len(c["rows"])
            h["files_unsorted"] += not is_sorted_file(c)
            h["files_with_failed_rows"] += any(row_is_failed(x) for x in c["rows"])
            h["files_with_error_only_in_earlier_cell"] += any(1 in sum(cell_sevs(x), []) and not row_is_failed(x)
                                                               for x in c["rows"])
            h["unstable_tie_orders_seen"] += any(not s for _, s in r.get("perms", []))
            h["via_tsv_file"] += bool(c.get("file"))
        else:
            h["history_len_%02d" % min(sum(len(tp) for tp in c["h"]), 10)] += 1
        txt = json.dumps(r.get("issues") or r.get("trace") or "")
        h["cases_with_unmatched_issue"] += "BEFORE_ONSET" in txt
        h["cases_with_same_name_reuse"] += "SAME_DEFS" in txt
    if task["kind"] == "exh":
        nontriv, hashes = sum(1 for c in cases if nontrivial(c)), []
    else:
        specs = task["specs"]
        nontriv = 0
        hashes = [hashlib.sha1(json.dumps(c, sort_keys=True).encode()).digest()[:8]
                  for c in cases if nontrivial(c) and not in_exh_domain(c, specs)]
    plain = [x for x in col.items if x[3] is None]
    return {"n": len(cases), "hist": dict(h), "nontrivial_exh": nontriv, "hashes": hashes,
            "known": [x for x in col.items if x[3] is not None], "reports": plain[:5], "n_reports": len(plain),
            "corr": corr[:5], "n_corr": len(corr), "disagreements": disagreements, "f1_checked": f1_checked,
            "sample": cases[len(cases) // 2]}


def run(tier, seed, res, model_ok=True, proof_ok=True):
    rng = random.Random(seed)
    quick = tier == "quick"
    wide = 1 if proof_ok else 3
    if not FIXED:      # pre-fix tree: the repaired finding is accepted again (it is no longer in known_findings.json)
        res.known_ids.setdefault("C10-F1", {"what": "pre-fix tree (VERIF_C10_FIXED=0): tie order of sort_values "
                                                    "among equal onsets is platform dependent (repaired by fix commit 29fcd01)"})
    corpus = CORPUS + [F1_WITNESS]
    small = quick and os.environ.get("VERIF_C10_BUDGET") == "small"
    specs, exh_rule = exh_specs("small" if small else tier)
    nh = (1000 if small else 4000 if quick else 40000) * wide
    nf = (1500 if small else 3500 if quick else 60000) * wide
    rand_h = gen_random_histories(rng, nh, 0.0) + gen_random_histories(rng, nh // 3, 0.25)
    files = (exhaustive_files() + focused_files() + gen_random_files(rng, nf, 0.0) + gen_random_files(rng, nf // 4, 0.3)
             + gen_random_files(rng, nf // 5, 0.1, unsorted=True))
    seqs = seq_cases(rng, (150 if small else 500 if quick else 6000) * wide)
    exe = C.build_driver("c10") if model_ok else None
    tasks = [{"kind": "cases", "cases": corpus}]
    listed = seqs + rand_h + files
    tasks += [{"kind": "cases", "cases": listed[i:i + 250]} for i in range(0, len(listed), 250)]
    tasks += exh_tasks(specs)
    for t in tasks:
        t["exe"] = exe
        t["specs"] = specs

    total = 0
    hist = Counter()
    hashes = set()
    nontriv = 0
    disagreements = f1_checked = dropped = 0
    samples = []
    with Pool(int(C.JOBS)) as pool:
        for k, out in enumerate(pool.imap(work, tasks, chunksize=1)):
            total += out["n"]
            hist.update(out["hist"])
            nontriv += out["nontrivial_exh"]
            hashes.update(out["hashes"])
            disagreements += out["disagreements"]
            f1_checked += out["f1_checked"]
            for clause, case, detail, fid in out["known"] + out["reports"]:
                res.report(clause, case, detail, fid=fid)
            for case, detail in out["corr"]:
                res.violation("correspondence", case, detail, no_input=True)
            dropped += out["n_reports"] - len(out["reports"]) + out["n_corr"] - len(out["corr"])
            if k in (0, 3, len(tasks) // 2, len(tasks) - 1):
                samples.append(out["sample"])
    return {
        "evaluations": total,
        "distinct_nontrivial": nontriv + len(hashes),
        "rule": "corpus + " + exh_rule + f" (direct OnsetValidator path on real HedString objects) + {len(rand_h)} "
                f"random histories (Def/Def-expand, tag order, inner groups, 25% stream with Def-less / two-Def / "
                f"plain groups) + {len(seqs)} sequences of 2-3 event files validated with ONE SpreadsheetValidator "
                f"object (a file leaving scopes open, then files starting with Offset/Inset of those names; each file "
                f"compared with the model/statement run from the empty state) "
                f"+ {len(files)} event files through TabularInput.validate (every 1-2 marker layout, "
                "random rows with equal onsets, Delay groups incl. units without a conversion to seconds, legal rows that "
                "draw warnings, a second HED column through a sidecar; a malformed stream with failed rows, an "
                "unsorted stream); non-trivial = at least two markers, not all Onset; distinct = exhaustive cases counted "
                "once by construction + distinct hashes of the generated cases outside the exhaustive domain",
        "samples": samples,
        "histogram": dict(sorted(hist.items())),
        "disagreements_checked": disagreements,
        "model_rerun_with_observed_tie_order": f1_checked,
        "correspondence_cases": total if model_ok else 0,
        "failures_not_listed_individually": dropped,
        "exhaustive": True,
        "exhaustive_domain": exh_rule,
        "fixed_mode": FIXED,
    }


def replay(payload):
    case = payload.get("case")
    if not case or "t" not in case:
        print("no concrete input in replay:", str(payload.get("detail", ""))[:800])
        return 1
    r = impl_one(case)
    if case["t"] == "H":
        print("time points:", [tp_text(tp) for tp in case["h"]])
    elif case["t"] == "S":
        for k, f in enumerate(case["files"]):
            print(f"file {k} (same SpreadsheetValidator object) rows:", [(onset_text(x["on"]), row_text(x)) for x in f])
    else:
        print("rows (onset, HED):", [(onset_text(x["on"]), row_text(x)) for x in case["rows"]])
    print("impl:", r)
    res = C.Result(PROP)
    res.known_ids = {f["id"]: f for f in C.known_findings().get("findings", []) if f.get("property") == PROP}
    if not FIXED:
        res.known_ids.setdefault("C10-F1", {"what": "pre-fix tree"})
    oracle(case, r, res)
    for v in res.violations:
        print("FAILS:", v["clause"], v["detail"])
    for k in res.known:
        print("KNOWN-FINDING:", k)
    rc = 1 if res.violations else 0
    try:
        exe = C.build_driver("c10")
        perms = (None, None)
        if not FIXED and case["t"] == "F" and "exn" not in r and not is_sorted_file(case) and len(r["perms"]) == 2:
            perms = (r["perms"][0][0], r["perms"][1][0])
        m = C.run_driver(exe, [model_line(case, perms)])[0]
        mm = model_history(m) if case["t"] == "H" else (model_seq(m) if case["t"] == "S" else model_file(m))
        print("model:", mm)
        same = (mm.get("trace") == r.get("trace")) if case["t"] == "H" else \
            ([(a.get("issues"), a.get("state")) for a in mm.get("files", [])] ==
             [(b["issues"], b["state"]) for b in r.get("files", [])]) if case["t"] == "S" else \
            (mm.get("issues") == r.get("issues") and mm.get("state") == r.get("state"))
        if not same and not FIXED and case["t"] == "F" and is_sorted_file(case) and any(not st for _, st in r.get("perms", [])):
            m2 = model_file(C.run_driver(exe, [model_line(case, (None, r["perms"][0][0]))])[0])
            print("model with the observed tie order of sort_values:", m2)
            same = m2.get("issues") == r.get("issues") and m2.get("state") == r.get("state")
            if same:
                print("model and implementation agree under the observed (not order-preserving) tie order")
        if not same:
            print("MODEL/IMPLEMENTATION DISAGREE")
            rc = 1
    except Exception as e:  # noqa
        print("model not available:", e)
    return rc
