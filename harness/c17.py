"""C17 -- Remodeling operations are pure functions of their parameters and input table."""
import copy
import itertools
import json
import os
import random
import sys
from multiprocessing import Pool

from harness import common as C
from harness import c17_translate as T

PROP = "C17"
# /repo contains the repairs of C17-F1..F8 (fix commits e8c17b3, 192568b, b484e3c, adebd46, e888c67, b5c611b,
# 6cfe711, 55a866d).  FIXED=1 (default) = the code as it is: the model mode `all_fixes` is compared, the oracle
# demands the full statement (none of the former finding classes is accepted) and Props/C17Now.v (facts about
# the current translation) is built.
# FIXED=0 is only for checking a tree from BEFORE those commits against `no_fixes`, the record of the repaired
# defects; the former finding classes are then recognised again.
FIXED = int(os.environ.get("VERIF_C17_FIXED", "1"))
COQ_TARGETS = ["Props/C17.vo", "Extract/ExtractC17.vo"] + (["Props/C17Now.vo"] if FIXED else [])
DRIVERS = ["c17"]

# C17-F9, repaired by fix commit 0437d48 (in /repo): remap_columns integer_sources on a float64 column WITHOUT missing
# cells was not converted ('1.0').  A pandas-representation effect outside the model (no switch).  FIXED_F9=0 is only
# for checking a tree from before 0437d48: the former class is then recognised and not compared with the model.
FIXED_F9 = int(os.environ.get("VERIF_C17_FIXED_F9", "1"))

# C17-F10, repaired by fix commit 67be5b4 (in /repo): factor_column flagged n/a rows for the factor value "nan"
# (str(NaN) == "nan").  The model has the switch fx_nan: FIXED_F10=1 (default) compares the current behaviour
# (a missing cell equals no factor value), FIXED_F10=0 the behaviour before 67be5b4.
FIXED_F10 = int(os.environ.get("VERIF_C17_FIXED_F10", "1"))

FIX_KEYS = ("reorder", "factor", "match", "copy", "gaps", "disjoint", "nan")
IMPL_FIXES = {k: bool(FIXED) for k in FIX_KEYS}
IMPL_FIXES["nan"] = bool(FIXED_F10)

# former finding classes of the two commits above (behaviour BEFORE the commit), consulted only with the switch at 0
LEGACY_F9_F10 = {
 "C17-F9": {"what": "[behaviour before fix commit 0437d48] remap_columns integer_sources naming a float64 column without "
                    "missing cells is not converted: key text '1.0', destinations n/a",
            "class": "f9_class"},
 "C17-F10": {"what": "[behaviour before fix commit 67be5b4] factor_column: the factor value 'nan' also flags n/a rows",
             "class": "f10_class"},
}

# the defects repaired by the fix commits above (behaviour BEFORE the commit given in each entry); only
# consulted with FIXED=0
LEGACY_FINDINGS = {
 "C17-F1": {
  "what": "[behaviour before fix commit e8c17b3] reorder_columns with keep_others=true appends the first file's extra columns to its own column_order (and to the caller's parameter list): parameters are mutated and a later file with other columns fails with MissingReorderedColumns or is ordered differently",
  "class": "the only parameters that differ after the run belong to reorder_columns operations with keep_others=true whose column_order was extended (old list is a prefix of the new one); order-dependence is attributed to it only in runs where that mutation happened"
 },
 "C17-F2": {
  "what": "[behaviour before fix commit 192568b] factor_column without factor_values (len(None)) or with factor_values but without factor_names (None[index]) passes RemodelerValidator and raises TypeError in do_op",
  "class": "TypeError raised inside a factor_column operation whose parameters lack factor_values or factor_names, on a table for which the documented meaning prescribes a result"
 },
 "C17-F3": {
  "what": "[behaviour before fix commit b484e3c] merge_consecutive without the optional match_columns passes RemodelerValidator and raises TypeError (set(None)) in do_op",
  "class": "TypeError raised inside a merge_consecutive operation whose parameters lack match_columns, on a table for which the documented meaning prescribes a result"
 },
 "C17-F4": {
  "what": "[behaviour before fix commit adebd46] split_rows with a new_events entry without the optional copy_columns passes RemodelerValidator and raises KeyError('copy_columns') in _split_rows",
  "class": "KeyError 'copy_columns' raised inside a split_rows operation one of whose new_events entries lacks copy_columns"
 },
 "C17-F5": {
  "what": "[behaviour before fix commit e888c67] remap_columns whose map has exactly two distinct keys fails in KeyMap._remap: pd.Series(self.map_dict) lets pandas 3 infer a RangeIndex from the two 64-bit key hashes and their difference overflows int64 (ValueError: Length of values (2) does not match length of index)",
  "class": "ValueError 'Length of values (2) ...' raised inside a remap_columns operation with exactly two distinct keys whose Python hashes differ by at least 2**63 (recomputed by the check)"
 },
 "C17-F6": {
  "what": "[behaviour before fix commit b5c611b] merge_consecutive with set_durations=true raises IndexError in _update_durations when the group numbers produced by _get_remove_groups have a gap (a run of the event code with nothing to merge before a run that merges): it iterates range(max_group) and indexes an empty group",
  "class": "IndexError raised inside a merge_consecutive operation with set_durations=true on a table for which the documented meaning prescribes a result"
 },
 "C17-F7": {
  "what": "[behaviour before fix commit 6cfe711] remap_columns whose source_columns/destination_columns overlap or repeat a name passes RemodelerValidator but the Dispatcher constructor raises (KEY_AND_TARGET_COLUMNS_NOT_DISJOINT / InvalidIndexError / ValueError)",
  "class": "Dispatcher constructor raises for a validated list containing a remap_columns operation whose source_columns + destination_columns are not pairwise distinct"
 },
 "C17-F8": {
  "what": "[behaviour before fix commit 55a866d] merge_consecutive with set_durations=true raises AttributeError ('int' object has no attribute 'max') in _update_durations when the onset and duration cells of the anchor row are plain Python numbers (both columns of object dtype, e.g. because each holds an n/a): `.sum(skipna=True).max()` calls .max() on a scalar",
  "class": "AttributeError with message \"'int' object has no attribute 'max'\" raised inside a merge_consecutive operation with set_durations=true on a table for which the documented meaning prescribes a result (pandas-dtype dependent; not part of the Coq model)"
 }
}


def known(fid):
    """A former finding id is accepted only when checking a tree from before the fix commits (FIXED=0)."""
    return fid if (fid and not FIXED) else None


TRUSTED = [
    "Model/Remodel.v is a hand transcription of Dispatcher.run_operations/prep_data/post_proc_data/parse_operations, "
    "the eight do_op methods, validate_input_data, RemapColumnsOp._make_key_map/KeyMap.update/remap and "
    "RemodelerValidator.validate; tied by the correspondence run (result tables, exception kind, parameter mutation, "
    "validator verdict)",
    "Gen/RemodelParams.v (PARAMS JSON schemas, parameters[...] / parameters.get(...) accesses of __init__ and of "
    "SplitRowsOp._split_rows, valid_operations keys) is regenerated from the sources by the fail-closed translator T5 "
    "(harness/c17_translate.py) on every run",
    "pandas (DataFrame.drop/rename/loc/merge/sort_values/to_numeric/fillna/replace, dtype inference, Series.equals) and "
    "jsonschema are modelled, not verified",
    "the repairs of C17-F5 (e888c67, pd.Series built from the hash-keyed dict) and C17-F8 (55a866d, .max() on a scalar "
    "sum) have NO switch in the model and no theorem distinguishes the code before and after them; they concern "
    "pandas dtype/hash-seed effects that the model never contained: that they no longer occur is established by "
    "testing only (old witnesses in the corpus + every generated case must agree with the model, which has no such failure)",
]
ASSUMPTIONS = [
    "cells are strings, integer-valued numbers or n/a; float formatting and pandas dtype inference are outside the model; "
    "numeric-looking strings are optional '-' + ASCII digits; quotes never occur in cells (KeyMap.remove_quotes not modelled)",
    "tables have pairwise distinct column names; an operation that produces duplicate names is outside the fragment "
    "(model: Unmodelled, excluded from theorems and comparison)",
    "split_rows sorts with pandas' default (unstable) quicksort: the order of rows with equal onset is unspecified and is "
    "compared as a multiset; lists where merge_consecutive follows split_rows are not compared",
    "input_unchanged is true by construction in a functional model (tables are values); on the implementation it is "
    "checked by testing only",
    "operations other than the eight non-summary ones are outside the model (validate returns Unmodelled)",
    "numeric columns held by pandas as float64 with NaN (an integer column with missing cells) are an input "
    "representation exercised only for remap_columns sources named in integer_sources, where the code converts them "
    "to integer text; the model and the theorems (C17_remap_columns_meaning) speak of integer-valued cells and do not "
    "distinguish int64 / object / float64 representations -- this dimension is tested only",
    "Exn Unmodelled is not a behaviour of the code but marks a run that left the modelled fragment; theorems over ALL "
    "tables (order independence, valid_always_runs) hold for such runs as equations between outcomes, their meaning "
    "inside the fragment is C17_valid_list_end_to_end / C17_order_independent_nth; the harness never compares a case "
    "whose model outcome is Unmodelled",
    "'the code as it is' = current /repo = model mode all_fixes; every theorem named *_refuted / *_record_* / *_partial "
    "in PART 2 of Props/C17.v is about the behaviour before the fix commit named next to it",
    "tables given as tsv file paths: Model.read_table models pd.read_csv(sep=tab, keep_default_na=False, "
    "na_values=',null') on the fragment where a column is numeric iff all its cells are canonical integers; the cell "
    "text ',null', floats, quoting, blank lines and '+1'-style numbers are outside the fragment; the backup-manager "
    "path translation of get_data_file is not exercised",
    "the model's tables are positional (no row labels); that the implementation's frames are labelled 0..n-1 after "
    "every operation -- which later operations rely on -- is an implementation-side oracle clause (index-contract, "
    "recorded by wrapping Dispatcher.post_proc_data), exercised by every ordered pair of operations",
    "merge_consecutive: whether n/a matches n/a in a match column that also holds numbers depends on pandas' dtype "
    "inference for single rows (Series.equals of an iterrows() row and a .loc[] row); such tables are not compared",
]

EXN_KINDS = {"TypeError", "KeyError", "AttributeError", "ValueError", "IndexError", "RecursionError", "HedFileError"}
NA = "n/a"


# ------------------------------------------------------------------ encoding for the driver

def jsx(j):
    if j is None:
        return "N"
    if isinstance(j, bool):
        return ["B", 1 if j else 0]
    if isinstance(j, int):
        return ["I", j]
    if isinstance(j, str):
        return ["S", C.cps(j)]
    if isinstance(j, list):
        return ["A"] + [jsx(x) for x in j]
    if isinstance(j, dict):
        return ["O"] + [[C.cps(k), jsx(v)] for k, v in j.items()]
    raise ValueError(f"not encodable: {j!r}")


def cell_sx(c):
    if isinstance(c, str):
        return ["s", C.cps(c)]
    return ["n", int(c)]


def table_sx(t):
    if not t["rows"]:
        return [[C.cps(c) for c in t["cols"]], []]
    return [[C.cps(c) for c in t["cols"]], [[cell_sx(c) for c in r] for r in t["rows"]]]


def sx_line(case, fixes=None):
    fx = fixes or IMPL_FIXES
    f = [1 if fx[k] else 0 for k in FIX_KEYS]
    if case.get("file_tables"):
        raw = [[[C.cps(c) for c in t["cols"]], [[["s", C.cps(x)] for x in r] for r in t["rows"]]] for t in case["file_tables"]]
        return C.to_sx([f, jsx(case["ops"]), raw, "file"])
    return C.to_sx([f, jsx(case["ops"]), [table_sx(t) for t in case["tables"]]])


def cell_unsx(x):
    if x == "na":
        return "NaN!"
    if x[0] == "s":
        return C.uncps(x[1]) if isinstance(x[1], list) else ""
    return int(x[1])


def table_unsx(x):
    cols = [C.uncps(c) if isinstance(c, list) else "" for c in x[0]]
    rows = [[cell_unsx(c) for c in r] for r in x[1]]
    return {"cols": cols, "rows": rows}


# ------------------------------------------------------------------ implementation side

def canon_cell(c):
    import numpy as np
    if isinstance(c, str):
        return c
    if isinstance(c, (bool, np.bool_)):
        return f"bool!{c}"
    if isinstance(c, (int, np.integer)):
        return int(c)
    if isinstance(c, (float, np.floating)):
        if c != c:
            return "NaN!"
        if float(c).is_integer():
            return int(c)
        return f"float!{c!r}"
    if c is None:
        return "NaN!"
    return f"obj!{type(c).__name__}"


def canon_df(df):
    return {"cols": [str(c) for c in df.columns], "rows": [[canon_cell(c) for c in r] for r in df.values.tolist()]}


def make_df(t):
    """The table as a DataFrame.  Columns named in t["float_cols"] are held the way pandas holds an integer
    column that has missing cells: float64 with NaN (3 -> 3.0, n/a -> NaN)."""
    import numpy as np
    import pandas as pd
    df = pd.DataFrame([list(r) for r in t["rows"]], columns=list(t["cols"]))
    for c in t.get("float_cols", []):
        j = t["cols"].index(c)
        df[c] = pd.Series([np.nan if r[j] == NA else float(r[j]) for r in t["rows"]], dtype="float64")
    return df


def exn_kind(e):
    n = type(e).__name__
    return n if n in EXN_KINDS else "Other:" + n


def failing_op_index(e, disp):
    tb = e.__traceback__
    while tb is not None:
        fr = tb.tb_frame
        if fr.f_code.co_name == "run_operations" and "operation" in fr.f_locals:
            try:
                return disp.parsed_ops.index(fr.f_locals["operation"])
            except ValueError:
                return None
        tb = tb.tb_next
    return None


_validator = None


def validator():
    global _validator
    if _validator is None:
        from hed.tools.remodeling.remodeler_validator import RemodelerValidator
        _validator = RemodelerValidator()
    return _validator


def write_tsv(path, t):
    with open(path, "w", encoding="utf-8", newline="") as fp:
        fp.write("\t".join(t["cols"]) + "\n")
        for r in t["rows"]:
            fp.write("\t".join(r) + "\n")


def infer_table(t):
    """What reading the tsv text gives on the modelled fragment: a column of integers only is numeric, every
    other column keeps the text of its cells (independent restatement of Model.read_table)."""
    cols, rows = t["cols"], t["rows"]

    def is_int(x):
        y = x[1:] if x.startswith("-") else x
        return y != "" and all("0" <= ch <= "9" for ch in y)
    numeric = [all(is_int(r[j]) for r in rows) for j in range(len(cols))]
    return {"cols": list(cols), "rows": [[int(x) if numeric[j] else x for j, x in enumerate(r)] for r in rows]}


def run_seq(ops, tables, file_tables=None):
    """One Dispatcher object, the tables in order (as DataFrames, or -- file_tables -- as tsv file paths).
    Returns (ctor_exn or None, results)."""
    from hed.tools.remodeling.dispatcher import Dispatcher
    try:
        disp = Dispatcher(ops, data_root=None, backup_name=None)
    except Exception as e:  # noqa
        return {"kind": exn_kind(e), "msg": str(e)[:120]}, []
    out = []
    # the dispatcher's tables are positional: after every operation the frame must be labelled 0..n-1
    # (later operations index by label and by position interchangeably); recorded by wrapping post_proc_data
    index_log = []
    orig_post = disp.post_proc_data

    def post(df_):
        res_ = orig_post(df_)
        index_log.append(list(res_.index) == list(range(len(res_))))
        return res_
    disp.post_proc_data = post
    scratch = C.scratch_dir(prefix="hedverif-c17-") if file_tables else None
    try:
        return None, _run_tables(disp, tables, file_tables, scratch, index_log)
    finally:
        if scratch:
            import shutil
            shutil.rmtree(scratch, ignore_errors=True)


def _run_tables(disp, tables, file_tables, scratch, index_log):
    out = []
    for k, t in enumerate(tables):
        df = make_df(t)
        df0 = df.copy(deep=True)
        r = {}
        del index_log[:]
        designator = df
        if file_tables:
            designator = os.path.join(scratch, f"sub-0{k}_task-x_events.tsv")
            write_tsv(designator, file_tables[k])
            before = open(designator, "rb").read()
        try:
            res = disp.run_operations(designator)
            r["ok"] = canon_df(res)
            r["index_final"] = list(res.index) == list(range(len(res)))
        except Exception as e:  # noqa
            r["exn"] = exn_kind(e)
            r["msg"] = str(e)[:100]
            r["op_index"] = failing_op_index(e, disp)
        r["index_ok"] = list(index_log)
        r["input_same"] = bool(df.equals(df0)) and list(df.columns) == list(df0.columns)
        if file_tables:
            r["input_same"] = open(designator, "rb").read() == before
        out.append(r)
    return out


def impl_one(case):
    ops = case["ops"]
    r = {}
    try:
        msgs = validator().validate(copy.deepcopy(ops))
    except Exception as e:  # noqa
        r["validate_exn"] = exn_kind(e)
        return r
    r["messages"] = len(msgs)
    if msgs:
        return r
    ops_run = copy.deepcopy(ops)
    ctor, res = run_seq(ops_run, case["tables"], case.get("file_tables"))
    r["ctor"] = ctor
    r["results"] = res
    r["params_after"] = ops_run
    r["changed"] = [a != b for a, b in zip(ops, ops_run)]
    # the same tables, each through its own fresh dispatcher (order-independence reference)
    fresh = []
    if ctor is None:
        for t in case["tables"]:
            _, fr = run_seq(copy.deepcopy(ops), [t])
            fresh.append(fr[0] if fr else None)
    r["fresh"] = fresh
    return r


# ------------------------------------------------------------------ documented meaning (independent reference)

class MustRaise(Exception):
    """The documentation prescribes an error for this table (missing column and not ignored, ...)."""


class NotApplicable(Exception):
    """The table lacks a column the operation names (or holds values of another kind): nothing is prescribed."""


def is_na(c):
    return c == NA


def num_of(c):
    """numeric value of a cell or None"""
    if isinstance(c, int):
        return c
    if isinstance(c, str) and c != NA:
        s = c[1:] if c.startswith("-") else c
        if s and all("0" <= ch <= "9" for ch in s):
            return int(c)
    return None


def val_eq(c, v):
    return (not is_na(c)) and type(c) is type(v) and c == v


def spec_op(name, p, t, fixes_all=True):
    cols, rows = list(t["cols"]), [list(r) for r in t["rows"]]
    ci = {c: i for i, c in enumerate(cols)}
    if name == "remove_rows":
        if p["column_name"] not in ci:
            return {"cols": cols, "rows": rows}
        i = ci[p["column_name"]]
        return {"cols": cols, "rows": [r for r in rows if not any(val_eq(r[i], v) for v in p["remove_values"])]}
    if name == "remove_columns":
        if not p["ignore_missing"] and any(c not in ci for c in p["column_names"]):
            raise MustRaise()
        keep = [i for i, c in enumerate(cols) if c not in p["column_names"]]
        return {"cols": [cols[i] for i in keep], "rows": [[r[i] for i in keep] for r in rows]}
    if name == "rename_columns":
        if not p["ignore_missing"] and any(c not in ci for c in p["column_mapping"]):
            raise MustRaise()
        new = [p["column_mapping"].get(c, c) for c in cols]
        if len(set(new)) != len(new):
            raise NotApplicable()
        return {"cols": new, "rows": rows}
    if name == "reorder_columns":
        if not p["ignore_missing"] and any(c not in ci for c in p["column_order"]):
            raise MustRaise()
        order = [c for c in p["column_order"] if c in ci]
        if p["keep_others"]:
            order += [c for c in cols if c not in order]
        return {"cols": order, "rows": [[r[ci[c]] for c in order] for r in rows]}
    if name == "factor_column":
        cn = p["column_name"]
        if cn not in ci:
            raise NotApplicable()
        values = p.get("factor_values")
        if not values:
            values = []
            for r in rows:
                if not is_na(r[ci[cn]]) and str(r[ci[cn]]) not in values:
                    values.append(str(r[ci[cn]]))
        names = p.get("factor_names") or [cn + "." + v for v in values]
        for v, nm in zip(values, names):
            i = ci[cn]
            f = [1 if (not is_na(r[i]) and str(r[i]) == v) else 0 for r in rows]
            if nm in ci:
                for r, x in zip(rows, f):
                    r[ci[nm]] = x
            else:
                ci[nm] = len(cols)
                cols.append(nm)
                for r, x in zip(rows, f):
                    r.append(x)
        return {"cols": cols, "rows": rows}
    if name == "remap_columns":
        src, dst = p["source_columns"], p["destination_columns"]
        if len(set(src + dst)) != len(src + dst):
            raise NotApplicable()
        if any(c not in ci for c in src):
            raise NotApplicable()
        ints = p.get("integer_sources", [])
        for c in ints:
            if any(isinstance(r[ci[c]], str) and not is_na(r[ci[c]]) for r in rows):
                raise NotApplicable()
        table_map = {}
        for m in p["map_list"]:
            table_map.setdefault(tuple(str(x) for x in m[:len(src)]), m[len(src):])
        for d in dst:
            if d not in ci:
                ci[d] = len(cols)
                cols.append(d)
                for r in rows:
                    r.append(NA)
        missing = False
        for r in rows:
            key = tuple(str(r[ci[c]]) for c in src)
            for c in src:
                r[ci[c]] = str(r[ci[c]])
            vals = table_map.get(key)
            if vals is None:
                missing = True
                vals = [NA] * len(dst)
            for d, v in zip(dst, vals):
                r[ci[d]] = v
        if missing and not p["ignore_missing"]:
            raise MustRaise()
        return {"cols": cols, "rows": rows}
    if name == "merge_consecutive":
        cn = p["column_name"]
        mc = p.get("match_columns") or []
        if cn not in ci:
            if not p["ignore_missing"]:
                raise MustRaise()
            raise NotApplicable()
        if p["set_durations"] and ("onset" not in ci or "duration" not in ci):
            raise MustRaise()
        if not p["ignore_missing"] and any(c not in ci for c in mc):
            raise MustRaise()
        key_cols = [ci[c] for c in mc if c in ci] + [ci[cn]]
        removed = [False] * len(rows)
        for i in range(1, len(rows)):
            a, b = rows[i - 1], rows[i]
            if val_eq(a[ci[cn]], p["event_code"]) and val_eq(b[ci[cn]], p["event_code"]) \
                    and all(type(a[k]) is type(b[k]) and a[k] == b[k] for k in key_cols):
                removed[i] = True
        if p["set_durations"]:
            io, idu = ci["onset"], ci["duration"]

            def end(r):
                tot = 0
                for k in (io, idu):
                    if is_na(r[k]):
                        continue
                    if not isinstance(r[k], int):
                        raise NotApplicable()
                    tot += r[k]
                return tot
            i = 0
            while i < len(rows):
                if removed[i] and not removed[i - 1]:
                    anchor = i - 1
                    j = i
                    while j < len(rows) and removed[j]:
                        j += 1
                    ext = max(end(rows[k]) for k in range(anchor, j))
                    if isinstance(rows[anchor][io], str) and not is_na(rows[anchor][io]):
                        raise NotApplicable()
                    rows[anchor][idu] = NA if is_na(rows[anchor][io]) else ext - rows[anchor][io]
                    i = j
                else:
                    i += 1
        return {"cols": cols, "rows": [r for r, x in zip(rows, removed) if not x]}
    if name == "split_rows":
        if "onset" not in ci or "duration" not in ci:
            raise MustRaise()
        anchor = p["anchor_column"]
        if anchor in ("onset", "duration"):
            raise NotApplicable()      # nothing is documented for an anchor that is a time column
        out_cols = cols + ([anchor] if anchor not in ci else [])
        oi = {c: i for i, c in enumerate(out_cols)}
        out = []
        if not p["remove_parent_row"]:
            for r in rows:
                out.append(list(r) + ([NA] if anchor not in ci else []))
        for ev, e in p["new_events"].items():
            for lst in (e["onset_source"], e["duration"]):
                if any(isinstance(s, str) and s not in ci for s in lst):
                    raise MustRaise()
            cc = e.get("copy_columns", [])
            if any(c not in ci for c in cc):
                raise MustRaise()
            if any(c in ("onset", "duration", anchor) for c in cc):
                raise NotApplicable()  # copying over a computed column: not documented
            for r in rows:
                on = num_of(r[ci["onset"]])
                for s in e["onset_source"]:
                    x = s if isinstance(s, int) else num_of(r[ci[s]])
                    on = None if (on is None or x is None) else on + x
                du = 0
                for s in e["duration"]:
                    x = s if isinstance(s, int) else num_of(r[ci[s]])
                    du = None if (du is None or x is None) else du + x
                child = [NA] * len(out_cols)
                child[oi["onset"]] = NA if on is None else on
                child[oi[anchor]] = ev
                child[oi["duration"]] = NA if du is None else du
                for c in cc:
                    child[oi[c]] = r[ci[c]]
                if on is None:
                    continue          # no onset: no new row
                if is_na(child[oi["onset"]]):
                    continue
                out.append(child)
        for r in out:
            o = r[oi["onset"]]
            if not is_na(o):
                n = num_of(o)
                if n is None:
                    raise NotApplicable()
                r[oi["onset"]] = n
        out.sort(key=lambda r: (1, 0) if is_na(r[oi["onset"]]) else (0, r[oi["onset"]]))
        return {"cols": out_cols, "rows": out}
    raise NotApplicable()


def spec_run(ops, t):
    """Documented result of the whole list on one table: ('ok', table) | ('raise',) | ('na',)."""
    cur = t
    for op in ops:
        try:
            cur = spec_op(op["operation"], op["parameters"], cur)
        except MustRaise:
            return ("raise",)
        except (NotApplicable, KeyError, TypeError):
            return ("na",)       # also: a parameter the documentation requires is absent
        if len(set(cur["cols"])) != len(cur["cols"]):
            return ("na",)
    return ("ok", cur)


def rows_key(t, multiset):
    rows = [tuple((type(c).__name__, c) for c in r) for r in t["rows"]]
    return sorted(rows) if multiset else rows


def tables_equal(a, b, multiset):
    return a["cols"] == b["cols"] and rows_key(a, multiset) == rows_key(b, multiset)


def order_sensitive(ops):
    """True: compare rows as a multiset (split_rows leaves the order of equal onsets unspecified).
    None: not compared at all -- a row-order dependent operation after split_rows, or an operation that
    stringifies numbers (remap_columns, factor_column) after one that computes them as floats."""
    seen_split = False
    seen_numeric = False
    for op in ops:
        nm = op["operation"]
        if seen_split and nm == "merge_consecutive":
            return None
        if seen_numeric and nm in ("remap_columns", "factor_column"):
            return None
        if nm == "split_rows":
            seen_split = seen_numeric = True
        if nm == "merge_consecutive" and op["parameters"].get("set_durations") is True:
            seen_numeric = True
    return seen_split


def completion_only(ops):
    """The only reason the list is not compared is a merge_consecutive after a split_rows (tie order), not a
    number-stringifying operation after float arithmetic."""
    seen_numeric = False
    for op in ops:
        nm = op["operation"]
        if seen_numeric and nm in ("remap_columns", "factor_column"):
            return False
        if nm == "split_rows" or (nm == "merge_consecutive" and op["parameters"].get("set_durations") is True):
            seen_numeric = True
    return True


def merge_na_risk(ops, t):
    """pandas 3 infers a different dtype for a row taken by iterrows() and by .loc[] when the row holds NaN next
    to strings in a non-string column, so Series.equals is False for identical rows: whether n/a matches n/a in a
    NUMERIC match column is a dtype-inference effect (outside the model).  True = do not compare this table."""
    risky = {c for i, c in enumerate(t["cols"])
             if any(isinstance(r[i], int) for r in t["rows"]) and any(r[i] == NA for r in t["rows"])}
    for op in ops:
        p = op["parameters"]
        if op["operation"] == "remap_columns":
            risky |= set(p["destination_columns"])
        if op["operation"] == "rename_columns":
            risky |= {v for k, v in p["column_mapping"].items() if k in risky}
        if op["operation"] == "merge_consecutive":
            if risky & set((p.get("match_columns") or []) + [p["column_name"]]):
                return True
    return False


def f9_class(ops, t):
    """Class of the former finding C17-F9 (repaired by 0437d48): a remap_columns operation whose integer_sources name a column that the input frame holds as
    float64 and that has NO missing cell (so replace(NaN, 'n/a') leaves it float64 and the integers assigned into it
    are cast back to float)."""
    fl = set(t.get("float_cols", []))
    if not fl:
        return False
    for o in ops:
        if o["operation"] == "remap_columns":
            for c in o["parameters"].get("integer_sources", []):
                if c in fl and c in t["cols"] and all(r[t["cols"].index(c)] != NA for r in t["rows"]) and t["rows"]:
                    return True
    return False


def f10_class(ops, t):
    """Class of the former finding C17-F10 (repaired by 67be5b4): a factor_column operation one of whose factor values (given, or the default = the distinct
    values of the column) is the text "nan", on a column that also has n/a cells."""
    for i, o in enumerate(ops):
        if o["operation"] != "factor_column":
            continue
        tbl = t
        if i > 0:
            sp = spec_run(ops[:i], t)
            if sp[0] != "ok":
                continue
            tbl = sp[1]
        c = o["parameters"]["column_name"]
        if c not in tbl["cols"]:
            continue
        cells = [r[tbl["cols"].index(c)] for r in tbl["rows"]]
        values = o["parameters"].get("factor_values") or [str(x) for x in cells if x != NA]
        if "nan" in values and NA in cells:
            return True
    return False


def two_key_overflow(op):
    """Class of C17-F5: exactly two distinct keys whose 64-bit hashes overflow pandas' range inference."""
    p = op["parameters"]
    m = len(p["source_columns"])
    keys = []
    for row in p["map_list"]:
        k = tuple(str(x) for x in row[:m])
        if k not in keys:
            keys.append(k)
    if len(keys) != 2:
        return False
    a, b = hash(keys[0]), hash(keys[1])
    # pandas.core.indexes.base.maybe_sequence_to_range: diff = b - a and stop = b + diff in int64
    return not (-2 ** 63 <= b - a < 2 ** 63) or not (-2 ** 63 <= 2 * b - a < 2 ** 63)


def classify_crash(ops, r):
    """Known-finding class of an exception raised by a validated list on an applicable table, or None."""
    i = r.get("op_index")
    if i is None or i >= len(ops):
        return None
    op, p, k = ops[i]["operation"], ops[i]["parameters"], r["exn"]
    if op == "factor_column" and k == "TypeError" and ("factor_values" not in p or "factor_names" not in p):
        return "C17-F2"
    if op == "merge_consecutive" and k == "TypeError" and "match_columns" not in p:
        return "C17-F3"
    if op == "split_rows" and k == "KeyError" and any("copy_columns" not in e for e in p["new_events"].values()) \
            and "copy_columns" in r.get("msg", ""):
        return "C17-F4"
    if op == "remap_columns" and k == "ValueError" and r.get("msg", "").startswith("Length of values (2)") \
            and two_key_overflow(ops[i]):
        return "C17-F5"
    if op == "merge_consecutive" and k == "IndexError" and p["set_durations"]:
        return "C17-F6"
    if op == "merge_consecutive" and k == "AttributeError" and p["set_durations"] \
            and "'int' object has no attribute 'max'" in r.get("msg", ""):
        return "C17-F8"
    return None


def reorder_mutated(ops, impl):
    """C17-F1 class: a reorder_columns/keep_others operation whose column_order grew during the run."""
    hit = False
    for op, after, ch in zip(ops, impl.get("params_after", []), impl.get("changed", [])):
        if ch:
            a, b = op["parameters"], after["parameters"]
            if op["operation"] == "reorder_columns" and a.get("keep_others") is True and \
                    {k: v for k, v in a.items() if k != "column_order"} == {k: v for k, v in b.items() if k != "column_order"} \
                    and b["column_order"][:len(a["column_order"])] == a["column_order"]:
                hit = True
            else:
                return None
    return hit


def oracle(case, r, res):
    """Every clause of the statement, on the implementation's behaviour only."""
    ops = case["ops"]
    rep = {"case": {"ops": ops, "tables": case["tables"]}}
    c = rep["case"]
    if case.get("file_tables"):
        c["file_tables"] = case["file_tables"]
    if "validate_exn" in r:
        res.report("validator-raises", c, r["validate_exn"])
        return
    expect_valid = case.get("expect_valid")
    if expect_valid is False:
        if r["messages"] == 0:
            res.report("invalid-reported-with-messages", c, f"fault={case.get('fault')} accepted without message")
        return
    if r["messages"]:
        if expect_valid is True:
            res.report("valid-accepted", c, "validator reported messages for a list built from the specification")
        return
    if r["ctor"] is not None:
        bad = [op for op in ops if op["operation"] == "remap_columns" and
               len(set(op["parameters"]["source_columns"] + op["parameters"]["destination_columns"])) !=
               len(op["parameters"]["source_columns"] + op["parameters"]["destination_columns"])]
        res.report("valid-runs", c, f"Dispatcher constructor raised {r['ctor']}", fid=known("C17-F7" if bad else None))
        return
    mutated = reorder_mutated(ops, r)
    if any(r["changed"]):
        res.report("parameters-unchanged", c, f"after={json.dumps(r['params_after'])[:200]}",
                   fid=known("C17-F1" if mutated else None))
    multiset = order_sensitive(ops)
    for k, (t, out) in enumerate(zip(case["tables"], r["results"])):
        ck = {"ops": ops, "tables": case["tables"], "position": k}
        if case.get("file_tables"):
            ck["file_tables"] = case["file_tables"]
        if not out["input_same"]:
            res.report("input-unchanged", ck, "input DataFrame differs after run_operations")
        fr = r["fresh"][k]
        # positional contract of the dispatcher's tables: labels 0..n-1 after every operation
        for which, rr in (("in sequence", out), ("fresh", fr)):
            bad_ix = [i for i, ok in enumerate(rr.get("index_ok", [])) if not ok]
            if bad_ix or rr.get("index_final") is False:
                res.report("index-contract", ck, f"{which}: row labels are not 0..n-1 after operation(s) {bad_ix} "
                                                 f"({[ops[i]['operation'] for i in bad_ix if i < len(ops)]})")
                break
        # order independence / repeatability against a fresh dispatcher
        same = ("ok" in out) == ("ok" in fr) and (
            tables_equal(out["ok"], fr["ok"], bool(multiset)) if "ok" in out else out["exn"] == fr["exn"])
        if not same and multiset is not None and case.get("file_tables"):
            res.report("file-path-equals-dataframe", ck,
                       f"table given as a tsv file path: {str(out)[:170]} same table as a DataFrame: {str(fr)[:170]}")
        elif not same and multiset is not None:
            res.report("order-independent", ck, f"in sequence: {str(out)[:150]} fresh: {str(fr)[:150]}",
                       fid=known("C17-F1" if mutated else None))
        # documented meaning / runs to completion, judged on the fresh run (history-free)
        sp = spec_run(ops, t)
        if f10_class(ops, t) and not FIXED_F10:
            if sp[0] == "ok" and "ok" in fr and not tables_equal(fr["ok"], sp[1], bool(multiset)):
                res.report("documented-meaning", ck, f"impl={str(fr)[:200]} documented={str(sp)[:200]}", fid="C17-F10")
            elif sp[0] == "ok" and "exn" in fr:
                res.report("valid-runs", ck, f"{fr['exn']}: {fr.get('msg')}")
            continue
        if not FIXED_F9 and f9_class(ops, t):
            wrong = ("exn" in fr) if sp[0] == "ok" else ("ok" in fr and sp[0] == "raise")
            if sp[0] == "ok" and "ok" in fr and not tables_equal(fr["ok"], sp[1], bool(multiset)):
                wrong = True
            if wrong:
                res.report("documented-meaning", ck, f"impl={str(fr)[:200]} documented={str(sp)[:200]}", fid="C17-F9")
            continue
        if multiset is None and sp[0] == "ok" and completion_only(ops) and not merge_na_risk(ops, t) and "exn" in fr:
            # merge_consecutive after split_rows: the table depends on the unspecified order of equal onsets,
            # but running to completion does not
            res.report("valid-runs", ck, f"{fr['exn']}: {fr.get('msg')}", fid=known(classify_crash(ops, fr)))
            continue
        if sp[0] == "na" or multiset is None or merge_na_risk(ops, t):
            continue
        if sp[0] == "raise":
            if "ok" in fr:
                res.report("documented-error", ck, f"an error is prescribed, got {str(fr['ok'])[:150]}")
            continue
        if "exn" in fr:
            res.report("valid-runs", ck, f"{fr['exn']}: {fr.get('msg')}", fid=known(classify_crash(ops, fr)))
            continue
        bad_cells = [x for row in fr["ok"]["rows"] for x in row if isinstance(x, str) and x.endswith("!") is False and
                     (x.startswith("float!") or x.startswith("obj!") or x.startswith("bool!"))]
        if any(x == "NaN!" for row in fr["ok"]["rows"] for x in row):
            res.report("na-preserved", ck, "result contains NaN instead of n/a")
            continue
        if bad_cells:
            continue
        if not tables_equal(fr["ok"], sp[1], bool(multiset)):
            res.report("documented-meaning", ck, f"impl={str(fr['ok'])[:200]} documented={str(sp[1])[:200]}")


# ------------------------------------------------------------------ correspondence with the model

def compare_model(case, r, m):
    """Returns None (agree / not comparable) or a description of the disagreement."""
    if m[0] == "ERR":
        return f"driver error {m}"
    if m[0] == "unmodelled":
        return None
    if "validate_exn" in r:
        return None
    if m[0] == "rejected":
        return None if r["messages"] else "model rejects, validator returned no message"
    if r["messages"]:
        return f"validator returned messages, model={m[0]}"
    if m[0] == "ctor":
        return None if r["ctor"] is not None else f"model: constructor raises {m[1]}, implementation constructed"
    if r["ctor"] is not None:
        return f"implementation constructor raised {r['ctor']}, model ran"
    multiset = order_sensitive(case["ops"])
    if multiset is None:
        return None
    states, outs = m[1], m[2]
    if not FIXED and any("exn" in out and classify_crash(case["ops"], out) in ("C17-F5", "C17-F8")
                         for out in r["results"]):
        return None                  # pandas dtype/hash-seed effects (known findings), deliberately not in the model
    for i, (st, ch) in enumerate(zip(states, r["changed"])):
        if (st[0] == "1") != ch:
            return f"op {i}: parameters changed impl={ch} model={st[0]}"
        if ch and case["ops"][i]["operation"] == "reorder_columns":
            mo = [C.uncps(x) for x in st[1]]
            if mo != r["params_after"][i]["parameters"]["column_order"]:
                return f"op {i}: column_order after impl={r['params_after'][i]['parameters']['column_order']} model={mo}"
    for k, (out, mo) in enumerate(zip(r["results"], outs)):
        if merge_na_risk(case["ops"], case["tables"][k]):
            continue
        if not FIXED_F9 and f9_class(case["ops"], case["tables"][k]):
            continue                 # tree before 0437d48: float64 representation effect, not in the model
        if not FIXED and "exn" in out and classify_crash(case["ops"], out) == "C17-F5":
            return None              # pandas/hash-seed effect (known finding), deliberately not in the model
        if mo[0] == "exn":
            if mo[1] == "Unmodelled":
                return None          # later tables depend on state we do not model either
            if "exn" not in out:
                return f"table {k}: model raises {mo[1]}, implementation returned a table"
            if out["exn"] != mo[1]:
                return f"table {k}: exception impl={out['exn']} model={mo[1]}"
        else:
            if "exn" in out:
                return f"table {k}: implementation raised {out['exn']} ({out.get('msg')}), model returned a table"
            mt = table_unsx(mo[1])
            if not tables_equal(out["ok"], mt, bool(multiset)):
                return f"table {k}: impl={str(out['ok'])[:220]} model={str(mt)[:220]}"
    return None


# ------------------------------------------------------------------ generators

COLS = ["a", "b", "c", "d", "onset", "duration"]
NEWCOLS = ["e", "f", "g"]
STRS = [NA, "1", "2", "10", "a", "b", "x", "X", "stop", "-3"]
EVENTS = ["x", "stop", "1", "a"]


def op(name, **p):
    return {"operation": name, "description": "generated", "parameters": p}


def names_clash(ops):
    """a remap_columns operation whose source + destination names are not pairwise distinct"""
    for o in ops if isinstance(ops, list) else []:
        if isinstance(o, dict) and o.get("operation") == "remap_columns":
            p = o["parameters"]
            cs = list(p.get("source_columns", [])) + list(p.get("destination_columns", []))
            if len(set(cs)) != len(cs):
                return True
    return False


def spec_valid(ops):
    """Lists built from the specification are valid, except -- since the fix of C17-F7 -- those with clashing
    remap_columns names, which must be reported with a message."""
    return not (FIXED and names_clash(ops))


def gen_table(rng, force_cols=None, nrows=None, few=()):
    ncols = rng.randint(1, 5)
    cols = rng.sample(COLS, ncols)
    for c in force_cols or []:
        if c not in cols:
            cols.append(c)
    rng.shuffle(cols)
    n = rng.randint(0, 4) if nrows is None else nrows
    kinds = {}
    for c in cols:
        if c in few:
            kinds[c] = "few"
        elif c in ("onset", "duration"):
            kinds[c] = rng.choice(["numfull", "numfull", "num"]) if few else rng.choice(["num", "num", "numstr"])
        else:
            kinds[c] = rng.choice(["str", "str", "str", "num", "few"])
    rows = []
    for _ in range(n):
        row = []
        for c in cols:
            k = kinds[c]
            if k == "numfull":
                row.append(rng.randint(0, 6))
            elif k == "num":
                row.append(NA if rng.random() < 0.2 else rng.randint(0, 6))
            elif k == "numstr":
                row.append(NA if rng.random() < 0.2 else str(rng.randint(0, 6)))
            elif k == "few":
                row.append(rng.choice(["x", "x", "stop", "X", NA]))
            else:
                row.append(rng.choice(STRS))
        rows.append(row)
    return {"cols": cols, "rows": rows}


def fixed_tables():
    return [
        {"cols": ["a", "b", "c"], "rows": [["1", "x", NA], ["2", "y", "z"], [NA, "x", "z"], ["1", "x", NA]]},
        {"cols": ["a", "b", "d"], "rows": [["1", "x", "q"]]},
        {"cols": ["onset", "duration", "b", "c"],
         "rows": [[1, 2, "x", "p"], [4, 1, "x", "p"], [6, NA, "x", "q"], [7, 1, "y", "q"], [9, 5, "x", "q"],
                  [10, 1, "x", "q"], [20, 1, "x", "q"]]},
        {"cols": ["onset", "duration", "b", "c"],
         "rows": [["5", "2", "x", "p"], ["4", "1", "x", "3"], ["6", NA, "x", "q"], [NA, "1", "y", "q"], ["4", "5", "x", "q"]]},
        {"cols": ["b", "a", "onset", "duration"], "rows": [["x", 1, 3, NA], ["x", 1, 1, 1], ["stop", NA, NA, 2]]},
        {"cols": ["a"], "rows": []},
        {"cols": ["c", "b", "a", "d", "onset", "duration"], "rows": [[NA, NA, NA, NA, NA, NA], ["x", "x", "x", "x", 2, 2]]},
    ]


def pick_cols(rng, pool, k=None, extra=0.25):
    k = k or rng.randint(1, 3)
    out = []
    for _ in range(k):
        c = rng.choice(NEWCOLS) if rng.random() < extra else rng.choice(pool)
        if c not in out:
            out.append(c)
    return out


def pval(rng):
    return rng.choice(["1", "2", "x", "X", "stop", "a", NA, 1, 2, 3, 0, "10"])


def gen_op(rng, name, pool, flags=None):
    """One operation drawn from the JSON specification; `flags` fixes the booleans / optional presence."""
    fl = dict(flags or {})

    def flag(k):
        return fl[k] if k in fl else rng.random() < 0.5
    if name == "remove_rows":
        vals = []
        for _ in range(rng.randint(1, 3)):
            v = pval(rng)
            if v not in vals and not (isinstance(v, int) and str(v) in [str(x) for x in vals if isinstance(x, int)]):
                vals.append(v)
        return op(name, column_name=rng.choice(pool + NEWCOLS[:1]), remove_values=vals)
    if name == "remove_columns":
        return op(name, column_names=pick_cols(rng, pool), ignore_missing=flag("ignore_missing"))
    if name == "rename_columns":
        keys = pick_cols(rng, pool)
        targets = rng.sample(NEWCOLS + pool, len(keys)) if rng.random() < 0.3 else rng.sample(NEWCOLS, len(keys))
        return op(name, column_mapping=dict(zip(keys, targets)), ignore_missing=flag("ignore_missing"))
    if name == "reorder_columns":
        return op(name, column_order=pick_cols(rng, pool, k=rng.randint(1, 4), extra=0.15),
                  ignore_missing=flag("ignore_missing"), keep_others=flag("keep_others"))
    if name == "factor_column":
        p = {"column_name": rng.choice(pool) if rng.random() < 0.9 else "e"}
        hv, hn = flag("has:factor_values"), flag("has:factor_names")
        if hn:
            hv = True        # dependentRequired
        if hv:
            p["factor_values"] = rng.sample(["1", "2", "x", "X", "stop", "a", NA, "10", "-3"], rng.randint(1, 3))
        if hn:
            p["factor_names"] = rng.sample(NEWCOLS + ["b", "x.1"], len(p["factor_values"]))
        return op(name, **p)
    if name == "remap_columns":
        src = pick_cols(rng, pool, k=rng.randint(1, 2), extra=0.1)
        dst = [c for c in pick_cols(rng, pool, k=rng.randint(1, 2), extra=0.7) if c not in src] or ["g"]
        if rng.random() < 0.04:
            dst = dst + [src[0]]
        ml = []
        for _ in range(rng.choice([1, 1, 2, 3, 3, 4])):
            row = [pval(rng) for _ in src] + [pval(rng) for _ in dst]
            if row not in ml:
                ml.append(row)
        p = dict(source_columns=src, destination_columns=dst, map_list=ml, ignore_missing=flag("ignore_missing"))
        if flag("has:integer_sources") and rng.random() < 0.6:
            p["integer_sources"] = rng.sample(src, rng.randint(1, len(src)))
        return op(name, **p)
    if name == "merge_consecutive":
        cn = rng.choice(pool) if rng.random() < 0.9 else "e"
        p = dict(column_name=cn, event_code=rng.choice(["x", "x", "stop", "1", 1, NA]),
                 set_durations=flag("set_durations"), ignore_missing=flag("ignore_missing"))
        if flag("has:match_columns"):
            p["match_columns"] = [c for c in pick_cols(rng, pool, k=rng.randint(0, 2), extra=0.15) if c != cn] \
                if rng.random() < 0.85 else []
        return op(name, **p)
    if name == "split_rows":
        evs = {}
        for ev in rng.sample(EVENTS, rng.randint(1, 2)):
            def srcs():
                return [rng.choice([0, 1, 2, -1, "duration", "onset", rng.choice(pool)]) if rng.random() < 0.9 else "e"
                        for _ in range(rng.randint(1, 2))]
            e = {"onset_source": srcs(), "duration": srcs()}
            if flag("has:copy_columns"):
                e["copy_columns"] = pick_cols(rng, pool, k=rng.randint(1, 2), extra=0.1)
            evs[ev] = e
        return op(name, anchor_column=rng.choice(pool + ["e"]), new_events=evs, remove_parent_row=flag("remove_parent_row"))
    raise ValueError(name)


FLAGS = {
    "remove_rows": [],
    "remove_columns": ["ignore_missing"],
    "rename_columns": ["ignore_missing"],
    "reorder_columns": ["ignore_missing", "keep_others"],
    "factor_column": ["has:factor_values", "has:factor_names"],
    "remap_columns": ["ignore_missing", "has:integer_sources"],
    "merge_consecutive": ["set_durations", "ignore_missing", "has:match_columns"],
    "split_rows": ["remove_parent_row", "has:copy_columns"],
}


def check_flags_cover_spec():
    """The flag table above must cover every boolean and every optional property of the PARAMS in the tree."""
    from hed.tools.remodeling.operations.valid_operations import valid_operations
    problems = []
    for name, flags in FLAGS.items():
        P = valid_operations[name].PARAMS
        want = set()
        for k, v in P["properties"].items():
            if v.get("type") == "boolean":
                want.add(k)
            if k not in P.get("required", []):
                want.add("has:" + k)
        if name == "split_rows":
            ev = P["properties"]["new_events"]["patternProperties"][".*"]
            for k in ev["properties"]:
                if k not in ev["required"]:
                    want.add("has:" + k)
        if want != set(flags):
            problems.append((name, sorted(want ^ set(flags))))
    return problems


ORDERS = [[0], [0, 1], [1, 0], [0, 0], [0, 1, 0], [1, 0, 1], [0, 1, 2], [2, 1, 0]]


def systematic_cases(rng, per_setting):
    """Every operation x every flag setting x table family x processing orders."""
    out = []
    fam = fixed_tables()
    for name, flags in FLAGS.items():
        for setting in itertools.product([False, True], repeat=len(flags)):
            fl = dict(zip(flags, setting))
            for j in range(per_setting):
                force = ["onset", "duration"] if name in ("split_rows",) or fl.get("set_durations") else None
                if name == "merge_consecutive" and rng.random() < 0.7:
                    ts = [gen_table(rng, force_cols=(force or []) + ["b"], nrows=rng.randint(3, 7), few=("b",))
                          for _ in range(3)]
                else:
                    ts = [rng.choice(fam) if rng.random() < 0.3 else
                          gen_table(rng, force_cols=force if rng.random() < 0.85 else None) for _ in range(3)]
                pool = ts[0]["cols"] if rng.random() < 0.8 else COLS
                o = gen_op(rng, name, list(pool), fl)
                if name == "merge_consecutive" and rng.random() < 0.7:
                    o["parameters"]["column_name"] = "b"
                    o["parameters"]["event_code"] = "x"
                    if "match_columns" in o["parameters"]:
                        o["parameters"]["match_columns"] = [c for c in o["parameters"]["match_columns"] if c != "b"]
                order = ORDERS[j % len(ORDERS)]
                out.append({"ops": [o], "tables": [ts[i] for i in order], "expect_valid": spec_valid([o]),
                            "kind": f"single:{name}"})
    return out


def random_cases(rng, n):
    out = []
    names = list(FLAGS)
    for _ in range(n):
        ts = [gen_table(rng, force_cols=["onset", "duration"] if rng.random() < 0.4 else None) for _ in range(3)]
        pool = list(ts[0]["cols"])
        ops = []
        for _ in range(rng.randint(1, 3)):
            nm = rng.choice(names)
            o = gen_op(rng, nm, pool)
            ops.append(o)
            # follow the columns the documented meaning produces, so that later operations name existing columns
            sp = spec_run(ops, ts[0])
            if sp[0] == "ok":
                pool = list(sp[1]["cols"]) or pool
        order = rng.choice(ORDERS)
        out.append({"ops": ops, "tables": [ts[i] for i in order], "expect_valid": spec_valid(ops),
                    "kind": f"multi:{len(ops)}"})
    return out


def gen_event_table(rng):
    """A table with an event-code column that has runs (b), a repetitive match column (c), numeric
    onset/duration and one or two free columns."""
    cols = ["onset", "duration", "b", "c"] + rng.sample(["a", "d"], rng.randint(0, 2))
    rng.shuffle(cols)
    n = rng.randint(4, 7)
    dur_na = rng.random() < 0.3
    rows = []
    for _ in range(n):
        row = []
        for c in cols:
            if c == "onset":
                row.append(rng.randint(0, 9))
            elif c == "duration":
                row.append(NA if (dur_na and rng.random() < 0.25) else rng.randint(0, 4))
            elif c == "b":
                row.append(rng.choice(["x", "x", "x", "stop", "X", NA]))
            elif c == "c":
                row.append(rng.choice(["p", "p", "q", NA]))
            else:
                row.append(rng.choice(STRS))
        rows.append(row)
    return {"cols": cols, "rows": rows}


def active_op(rng, name, tbl):
    """An operation whose parameters are taken from the concrete table `tbl`, so that it really does something:
    removes a row that is not the last one, merges a run, adds rows or columns, moves columns."""
    cols = list(tbl["cols"])
    rows = tbl["rows"]
    str_cols = [c for c in cols if c not in ("onset", "duration") and
                all(isinstance(r[cols.index(c)], str) for r in rows)]
    if not str_cols or not rows:
        return gen_op(rng, name, cols or COLS)
    code_col = "b" if "b" in str_cols else rng.choice(str_cols)

    def values_of(c, non_final=False):
        i = cols.index(c)
        src = rows[:-1] if (non_final and len(rows) > 1) else rows
        return [r[i] for r in src if r[i] != NA]
    if name == "remove_rows":
        c = rng.choice(str_cols)
        vs = values_of(c, non_final=True) or ["x"]
        vals = list(dict.fromkeys(rng.sample(vs, min(len(vs), rng.randint(1, 2)))))
        return op(name, column_name=c, remove_values=vals)
    if name == "remove_columns":
        free = [c for c in cols if c not in (code_col, "onset", "duration")] or [cols[0]]
        return op(name, column_names=rng.sample(free, 1), ignore_missing=rng.random() < 0.5)
    if name == "rename_columns":
        free = [c for c in cols if c not in ("onset", "duration")]
        k = rng.choice(free)
        return op(name, column_mapping={k: rng.choice([n for n in NEWCOLS if n not in cols] or ["zz"])},
                  ignore_missing=rng.random() < 0.5)
    if name == "reorder_columns":
        order = rng.sample(cols, rng.randint(1, len(cols)))
        return op(name, column_order=order, ignore_missing=rng.random() < 0.5, keep_others=rng.random() < 0.7)
    if name == "factor_column":
        c = rng.choice(str_cols)
        p = {"column_name": c}
        if rng.random() < 0.7:
            vs = list(dict.fromkeys(values_of(c))) or ["x"]
            p["factor_values"] = rng.sample(vs, min(len(vs), rng.randint(1, 2)))
            if rng.random() < 0.6:
                fresh = [n for n in NEWCOLS + ["h", "k"] if n not in cols]
                p["factor_names"] = rng.sample(fresh, len(p["factor_values"]))
        return op(name, **p)
    if name == "remap_columns":
        c = rng.choice(str_cols)
        keys = list(dict.fromkeys(values_of(c))) or ["x"]
        keys = rng.sample(keys, min(len(keys), rng.choice([1, 3, 3])))
        if rng.random() < 0.4:
            keys.append(NA)
        dst = [rng.choice([n for n in NEWCOLS if n not in cols] or ["zz"])]
        return op(name, source_columns=[c], destination_columns=dst,
                  map_list=[[k, rng.choice(["m", "n", 1, 2])] for k in dict.fromkeys(keys)],
                  ignore_missing=True if rng.random() < 0.8 else False)
    if name == "merge_consecutive":
        vs = values_of(code_col) or ["x"]
        code = max(set(vs), key=vs.count) if rng.random() < 0.8 else rng.choice(vs)
        p = dict(column_name=code_col, event_code=code,
                 set_durations=(rng.random() < 0.5 and "onset" in cols and "duration" in cols),
                 ignore_missing=rng.random() < 0.5)
        if rng.random() < 0.8:
            others = [c for c in str_cols if c != code_col]
            p["match_columns"] = rng.sample(others, min(len(others), rng.randint(0, 1)))
        return op(name, **p)
    if name == "split_rows":
        if "onset" not in cols or "duration" not in cols:
            return gen_op(rng, name, cols)
        ev = {"onset_source": [rng.choice([0, 1, 2, "duration"])], "duration": [rng.choice([0, 1, "duration"])]}
        if rng.random() < 0.7:
            free = [c for c in cols if c not in ("onset", "duration", code_col)]
            if free:
                ev["copy_columns"] = rng.sample(free, 1)
        return op(name, anchor_column=code_col if rng.random() < 0.7 else "e",
                  new_events={rng.choice(["x", "stop", "new"]): ev}, remove_parent_row=rng.random() < 0.3)
    raise ValueError(name)


def chain_cases(rng, per_pair, ntriples):
    """Operation LISTS: every ordered pair of the eight operations (and a sample of triples), each operation built
    from the table the documented meaning of the preceding ones produces, on tables with event codes."""
    out = []
    names = list(FLAGS)

    def build(seq):
        t = gen_event_table(rng)
        cur = t
        ops = []
        for nm in seq:
            ops.append(active_op(rng, nm, cur))
            sp = spec_run(ops, t)
            if sp[0] == "ok":
                cur = sp[1]
        tables = [t] if rng.random() < 0.6 else [t, gen_event_table(rng)]
        return {"ops": ops, "tables": tables, "expect_valid": spec_valid(ops), "kind": f"chain:{len(seq)}"}
    for a in names:
        for b in names:
            for _ in range(per_pair):
                out.append(build([a, b]))
    for _ in range(ntriples):
        out.append(build([rng.choice(names) for _ in range(3)]))
    return out


def remap_cases(rng, n):
    """remap_columns whose map_list repeats source keys -- at the beginning, in the middle or at the end, with
    DIFFERENT destinations, also as the numeric-looking pair 1 / "1" -- among keys that occur in the table.
    Every entry has its own destination value, so a lookup that lands on a neighbouring entry is visible.
    Documented meaning: the first entry of a key wins and the other keys are unaffected."""
    out = []
    for n_case in range(n):
        t = gen_event_table(rng) if rng.random() < 0.5 else gen_table(rng, nrows=rng.randint(3, 6))
        cols, rows = t["cols"], t["rows"]
        if not rows:
            continue
        nsrc = 1 if rng.random() < 0.75 else min(2, len(cols))
        src = rng.sample(cols, nsrc)
        idx = [cols.index(c) for c in src]
        numeric_src = [c for c, i in zip(src, idx) if all(isinstance(r[i], int) or r[i] == NA for r in rows)]
        present = list(dict.fromkeys(tuple(r[i] for i in idx) for r in rows))      # typed keys, table order
        rng.shuffle(present)
        keys = present[:rng.randint(2, 5)]
        if rng.random() < 0.5:
            keys.insert(rng.randint(0, len(keys)), tuple(rng.choice(["zz", 77]) for _ in src))   # a key not in the table
        if len(keys) < 2:
            continue

        def respell(k):
            """the same key, written differently where JSON allows it: 1 <-> "1" """
            alt = tuple((str(x) if isinstance(x, int) else (int(x) if num_of(x) is not None and str(int(x)) == x else x))
                        for x in k)
            return alt if (alt != k and rng.random() < 0.6) else k
        # the repeated keys and where the repeats go
        entries = [list(k) for k in keys]
        for _ in range(rng.choice([1, 1, 2])):
            j = rng.randrange(len(keys))
            where = rng.choice(["begin", "middle", "end", "adjacent"])
            dup = list(respell(keys[j]))
            first = entries.index(list(keys[j])) if list(keys[j]) in entries else 0
            pos = {"begin": 0, "middle": rng.randint(0, len(entries)), "end": len(entries),
                   "adjacent": first + 1}[where]
            entries.insert(pos, dup)
        ndst = rng.randint(1, 2)
        dst = rng.sample([c for c in NEWCOLS + ["h"] if c not in cols], ndst)
        if rng.random() < 0.25:
            free = [c for c in cols if c not in src]
            if free:
                dst[0] = rng.choice(free)            # an existing column is overwritten
        ml = []
        for e_i, e in enumerate(entries):
            row = e + [(f"v{e_i}" if rng.random() < 0.7 else 100 + e_i) for _ in dst]
            if row not in ml:
                ml.append(row)
        p = dict(source_columns=src, destination_columns=dst, map_list=ml, ignore_missing=rng.random() < 0.7)
        if numeric_src and rng.random() < 0.5:
            p["integer_sources"] = rng.sample(numeric_src, rng.randint(1, len(numeric_src)))
        ops = [op("remap_columns", **p)]
        if rng.random() < 0.3:
            ops.append(active_op(rng, rng.choice(["remove_rows", "rename_columns", "reorder_columns", "remove_columns"]), t))
        tables = [t] if rng.random() < 0.7 else [t, t]
        out.append({"ops": ops, "tables": tables, "expect_valid": spec_valid(ops), "kind": "remap-repeated-keys"})
    return out


NA_SPELLINGS = ["None", "NA", "N/A", "null", "nan", "NaN", "NULL", "", "#N/A", "-", "none", "<NA>", NA]
ODD_NAMES = ["trial-type", "resp time", "v1.x", "a/b", "Größe", "x_y", "q?"]


def gen_text_table(rng, odd_names=False):
    """A table as TEXT (what a tsv file holds): ordinary words, integers, n/a and the spellings that pandas would
    read as missing by default; at least two columns (a line that is empty is not a row)."""
    pool = (ODD_NAMES if odd_names else []) + COLS
    cols = rng.sample(pool, rng.randint(2, 5))
    if odd_names and not any(c in ODD_NAMES for c in cols):
        cols[0] = rng.choice(ODD_NAMES)
    kinds = {c: (rng.choice(["int", "int", "intna"]) if c in ("onset", "duration")
                 else rng.choice(["word", "na-ish", "na-ish", "int", "few"])) for c in cols}
    rows = []
    for _ in range(rng.randint(1, 5)):
        row = []
        for c in cols:
            k = kinds[c]
            if k == "int":
                row.append(str(rng.randint(0, 9)))
            elif k == "intna":
                row.append(NA if rng.random() < 0.3 else str(rng.randint(0, 9)))
            elif k == "few":
                row.append(rng.choice(["x", "x", "stop", "X", NA]))
            elif k == "word":
                row.append(rng.choice(["1", "2", "10", "a", "b", "x", "X", "stop", "-3", NA]))
            else:
                row.append(rng.choice(NA_SPELLINGS + ["x", "1"]))
        rows.append(row)
    return {"cols": cols, "rows": rows}


def file_cases(rng, n):
    """The table handed to run_operations as a tsv FILE PATH (Dispatcher.get_data_file), 1-3 files through one
    dispatcher; the reference is the same table as a DataFrame through a fresh dispatcher and the documented
    meaning.  Cells include every spelling pandas reads as missing by default: only n/a means n/a."""
    out = []
    names = list(FLAGS)
    for _ in range(n):
        raws = [gen_text_table(rng) for _ in range(3)]
        typed = [infer_table(t) for t in raws]
        pool = list(typed[0]["cols"])
        ops = []
        passthrough = rng.random() < 0.5
        for _ in range(rng.randint(1, 3)):
            nm = rng.choice(["remove_rows", "remove_columns", "rename_columns", "reorder_columns"]) if passthrough \
                else rng.choice(names)
            ops.append(gen_op(rng, nm, pool))
            sp = spec_run(ops, typed[0])
            if sp[0] == "ok":
                pool = list(sp[1]["cols"]) or pool
        order = rng.choice(ORDERS)
        out.append({"ops": ops, "tables": [typed[i] for i in order], "file_tables": [raws[i] for i in order],
                    "expect_valid": spec_valid(ops), "kind": "file-path"})
    return out


def odd_name_cases(rng, n):
    """Column names (in tables and in parameters) with characters outside [A-Za-z0-9_]: hyphen, blank, dot,
    slash, non-ASCII letters.  These lists are valid and must run."""
    out = []
    for _ in range(n):
        raw = gen_text_table(rng, odd_names=True)
        t = infer_table(raw)
        pool = list(t["cols"])
        ops = []
        for _ in range(rng.randint(1, 2)):
            nm = rng.choice(["remove_rows", "remove_columns", "rename_columns", "reorder_columns", "factor_column",
                             "remap_columns", "merge_consecutive"])
            o = gen_op(rng, nm, pool)
            if nm == "rename_columns" and rng.random() < 0.6:
                k = rng.choice(pool)
                o["parameters"]["column_mapping"] = {k: rng.choice([x for x in ODD_NAMES if x not in pool] or ["zz"])}
            ops.append(o)
            sp = spec_run(ops, t)
            if sp[0] == "ok":
                pool = list(sp[1]["cols"]) or pool
        as_file = rng.random() < 0.4
        c = {"ops": ops, "tables": [t], "expect_valid": spec_valid(ops), "kind": "odd-names"}
        if as_file:
            c["file_tables"] = [raw]
        out.append(c)
    return out


ODD_KEYS = ["match-columns", "copy columns", "v1.comment", "a/b", "it's", "", "ключ", 'q"uote', "x y-z.w", " ",
            "ignore-missing", "column names", "{}", "%s", "{operation_index}", "new\nline", "tab\tkey"]


def respell(k, rng):
    r = rng.choice([k.replace("_", "-"), k.replace("_", " "), k.replace("_", "."), k + "-x", " " + k, k.upper() + "!"])
    return r if r != k else k + rng.choice(["-x", " 2", ".bak"])


def malformed_key_cases(rng, n):
    """Lists that fail validation because of an unexpected / misspelled KEY, at every level where keys occur (the
    operation dictionary, its parameters, a split_rows new_events entry), the key drawn from spellings with
    characters outside [A-Za-z0-9_].  The clause is: reported with messages, never an exception."""
    out = []
    names = list(FLAGS)
    t = fixed_tables()[0]
    for _ in range(n):
        nm = rng.choice(names + ["split_rows"])
        good = gen_op(rng, nm, ["a", "b", "c", "onset", "duration"], {k: True for k in FLAGS[nm]})
        o = copy.deepcopy(good)
        level = rng.choice(["op", "params", "params", "respell-param", "respell-param", "event", "respell-op"])
        if level == "op":
            o[rng.choice(ODD_KEYS)] = rng.choice([1, "x", None, [], {}])
        elif level == "params":
            o["parameters"][rng.choice(ODD_KEYS)] = rng.choice([True, "x", 3, [], {}])
        elif level == "respell-param":
            k = rng.choice(list(o["parameters"]))
            o["parameters"][respell(k, rng)] = o["parameters"].pop(k)
        elif level == "respell-op":
            k = rng.choice(["operation", "description", "parameters"])
            o[respell(k, rng)] = o.pop(k)
        else:
            if nm != "split_rows":
                continue
            ev = rng.choice(list(o["parameters"]["new_events"]))
            e = o["parameters"]["new_events"][ev]
            if rng.random() < 0.5:
                e[rng.choice(ODD_KEYS)] = rng.choice([["a"], 1, "x"])
            else:
                k = rng.choice(list(e))
                e[respell(k, rng)] = e.pop(k)
        lst = [o]
        if rng.random() < 0.4:
            lst = [gen_op(rng, "remove_columns", ["a"])] + lst
        out.append({"ops": lst, "tables": [t], "expect_valid": False, "fault": f"key:{nm}:{level}", "kind": "malformed-key"})
    return out


def remap_int_cases(rng, n):
    """remap_columns with TWO OR MORE integer_sources: numeric source columns with missing cells -- held as float64
    with NaN or as Python numbers with n/a -- rows that are n/a in some but not all of them, and map_list entries
    for such partial keys (keys containing n/a).  Documented meaning: each integer source is read as integer
    text on its own, n/a stays the key text n/a, the first matching entry gives the destinations."""
    out = []
    for _ in range(n):
        nk = rng.choice([2, 2, 3])
        kcols = rng.sample(["a", "c", "d", "onset", "duration"], nk)
        pool_x = ["b"] + [c for c in ["a", "c", "d"] if c not in kcols]
        extra = rng.sample(pool_x, rng.randint(0, min(2, len(pool_x))))
        cols = kcols + extra
        rng.shuffle(cols)
        rows = []
        for _ in range(rng.randint(3, 6)):
            rows.append([(NA if rng.random() < 0.35 else rng.randint(0, 3)) if c in kcols
                         else rng.choice(["x", "stop", "X", NA, "b"]) for c in cols])
        # make sure some row is n/a in exactly some of the integer sources
        r = rng.choice(rows)
        ks = [cols.index(c) for c in kcols]
        r[ks[0]] = NA
        r[ks[1]] = rng.randint(0, 3)
        use_float = rng.random() < 0.6
        t = {"cols": cols, "rows": rows}
        if use_float:
            # float64 + NaN is how pandas holds an integer column that has missing cells; a float64 column without
            # missing cells is the (rarer) class of the former finding C17-F9 (repaired by 0437d48)
            t["float_cols"] = [c for c in kcols if any(r[cols.index(c)] == NA for r in rows) or rng.random() < 0.1]
        src = list(kcols)
        if extra and "b" in extra and rng.random() < 0.3:
            src.insert(rng.randint(0, len(src)), "b")
        idx = [cols.index(c) for c in src]
        present = list(dict.fromkeys(tuple(r[i] for i in idx) for r in rows))
        rng.shuffle(present)
        keys = present[:rng.randint(2, 5)]
        partial = [k for k in present if any(x == NA for x in k) and not all(x == NA for x in k)]
        for k in partial[:2]:
            if k not in keys:
                keys.insert(rng.randint(0, len(keys)), k)
        if rng.random() < 0.4:
            keys.insert(rng.randint(0, len(keys)), tuple(rng.choice([7, NA]) for _ in src))
        entries = []
        for k in keys:
            e = [(str(x) if (isinstance(x, int) and rng.random() < 0.3) else x) for x in k]   # 3 may be written "3"
            entries.append(e)
        if rng.random() < 0.4 and entries:
            entries.insert(rng.randint(0, len(entries)), list(rng.choice(entries)))          # a repeated key
        dst = rng.sample([c for c in NEWCOLS + ["h"] if c not in cols], rng.randint(1, 2))
        ml = []
        for e_i, e in enumerate(entries):
            row = e + [(f"v{e_i}" if rng.random() < 0.7 else 100 + e_i) for _ in dst]
            if row not in ml:
                ml.append(row)
        ints = list(kcols) if use_float else rng.sample(kcols, rng.randint(2, len(kcols)))
        # (a numeric source that is not an integer source must not be float64: its text would be "3.0")
        rng.shuffle(ints)
        ops = [op("remap_columns", source_columns=src, destination_columns=dst, map_list=ml,
                  ignore_missing=rng.random() < 0.8, integer_sources=ints)]
        if rng.random() < 0.3:
            ops.append(active_op(rng, rng.choice(["rename_columns", "reorder_columns", "remove_columns"]),
                                 {"cols": cols, "rows": rows}))
        tables = [t] if rng.random() < 0.7 else [t, t]
        out.append({"ops": ops, "tables": tables, "expect_valid": spec_valid(ops), "kind": "remap-integer-sources"})
    return out


def factor_na_cases(rng, n):
    """factor_column on columns that hold n/a cells next to texts that LOOK like a missing value (nan, NaN, None,
    NA, null): given factor values containing such a text, or the default values.  Documented meaning: an n/a cell
    equals no factor value."""
    out = []
    for _ in range(n):
        cols = rng.sample(["a", "b", "c", "d"], rng.randint(2, 3))
        look = ["nan", "nan", "NaN", "None", "NA", "null", "x", "stop"]
        rows = [[rng.choice(look + [NA, NA]) for _ in cols] for _ in range(rng.randint(3, 6))]
        c = rng.choice(cols)
        rows[0][cols.index(c)] = NA
        rows[1][cols.index(c)] = "nan"
        rng.shuffle(rows)
        p = {"column_name": c}
        if rng.random() < 0.6:
            vs = rng.sample(["nan", "NaN", "None", "x", "NA"], rng.randint(1, 3))
            if "nan" not in vs and rng.random() < 0.7:
                vs.append("nan")
            p["factor_values"] = vs
            if rng.random() < 0.5:
                p["factor_names"] = rng.sample(NEWCOLS + ["h", "k"], len(vs))
        t = {"cols": cols, "rows": rows}
        raw = None
        if rng.random() < 0.3:
            raw = {"cols": cols, "rows": [[x for x in r] for r in rows]}
        case = {"ops": [op("factor_column", **p)], "tables": [t], "expect_valid": True, "kind": "factor-na-lookalikes"}
        if raw:
            case["file_tables"] = [raw]
        out.append(case)
    return out


def malformed_cases(rng, n):
    """Lists that violate the JSON specification in exactly one known way."""
    out = []
    names = list(FLAGS)
    t = fixed_tables()[0]
    base_faults = ["empty-list", "not-a-list", "item-not-dict", "missing-description", "missing-parameters",
                   "unknown-operation", "extra-top-key"]
    for f in base_faults:
        good = gen_op(rng, "remove_columns", ["a", "b"])
        if f == "empty-list":
            ops = []
        elif f == "not-a-list":
            ops = good
        elif f == "item-not-dict":
            ops = [good, "remove_rows"]
        elif f == "missing-description":
            ops = [{k: v for k, v in good.items() if k != "description"}]
        elif f == "missing-parameters":
            ops = [{k: v for k, v in good.items() if k != "parameters"}]
        elif f == "unknown-operation":
            ops = [dict(good, operation="remove_colums")]
        else:
            ops = [dict(good, extra=1)]
        out.append({"ops": ops, "tables": [t], "expect_valid": False, "fault": f, "kind": "malformed"})
    from hed.tools.remodeling.operations.valid_operations import valid_operations
    for _ in range(n):
        nm = rng.choice(names)
        good = gen_op(rng, nm, ["a", "b", "c", "onset", "duration"])
        P = valid_operations[nm].PARAMS
        p = copy.deepcopy(good["parameters"])
        f = rng.choice(["drop-required", "extra-key", "wrong-type", "empty-array", "duplicate-item", "semantic"])
        if f == "drop-required":
            k = rng.choice(P["required"])
            p.pop(k)
        elif f == "extra-key":
            p["unexpected"] = True
        elif f == "wrong-type":
            k = rng.choice(list(p))
            ty = P["properties"][k]["type"]
            p[k] = 7 if ty in ("string", "array", "object", "boolean") else {"x": []}
        elif f == "empty-array":
            ks = [k for k in p if P["properties"][k].get("type") == "array" and P["properties"][k].get("minItems")]
            if not ks:
                continue
            p[rng.choice(ks)] = []
        elif f == "duplicate-item":
            ks = [k for k in p if P["properties"][k].get("uniqueItems") and p[k]]
            if not ks:
                continue
            k = rng.choice(ks)
            p[k] = list(p[k]) + [copy.deepcopy(p[k][0])]
        else:
            if nm == "factor_column":
                p["factor_values"] = ["1", "2"]
                p["factor_names"] = ["e"]
            elif nm == "remap_columns":
                x = rng.random()
                if FIXED and x < 0.4:      # names shared or repeated (rejected since the fix of C17-F7)
                    if rng.random() < 0.5:
                        p["destination_columns"] = p["destination_columns"][:-1] + [p["source_columns"][0]]
                    else:
                        p["source_columns"] = p["source_columns"] + [p["source_columns"][0]]
                        p["map_list"] = [row[:1] + row for row in p["map_list"]]
                elif x < 0.7:
                    p["map_list"] = p["map_list"] + [p["map_list"][0] + ["extra"]]
                else:
                    p["integer_sources"] = ["zz"]
            elif nm == "merge_consecutive":
                p["match_columns"] = [p["column_name"], "b"] if p["column_name"] != "b" else ["b", "c"]
            else:
                continue
        lst = [dict(good, parameters=p)]
        if rng.random() < 0.5:   # an invalid entry AFTER a valid one: nothing may run
            lst = [gen_op(rng, "remove_columns", ["a"])] + lst
        out.append({"ops": lst, "tables": [t], "expect_valid": False, "fault": f"{nm}:{f}", "kind": "malformed"})
    return out


def drop_cases(rng, per_op):
    """Every parameter dropped in turn; whether the list is still valid is decided by the validator under test:
    if it accepts, the list must construct and run (this is what catches a `required` entry that went missing)."""
    out = []
    fam = fixed_tables()
    for nm in FLAGS:
        for _ in range(per_op):
            t = rng.choice(fam[:5])
            good = gen_op(rng, nm, list(t["cols"]), {k: True for k in FLAGS[nm]})
            for k in list(good["parameters"]):
                p = copy.deepcopy(good["parameters"])
                p.pop(k)
                out.append({"ops": [dict(good, parameters=p)], "tables": [t], "expect_valid": None, "kind": "dropped-key"})
            if nm == "split_rows":
                for ev in good["parameters"]["new_events"]:
                    for k in list(good["parameters"]["new_events"][ev]):
                        p = copy.deepcopy(good["parameters"])
                        p["new_events"][ev].pop(k)
                        out.append({"ops": [dict(good, parameters=p)], "tables": [t], "expect_valid": None,
                                    "kind": "dropped-key"})
    return out


def corpus():
    T1 = {"cols": ["a", "b", "c"], "rows": [["1", "x", NA], ["2", "y", "z"]]}
    T2 = {"cols": ["a", "b", "d"], "rows": [["1", "x", "q"]]}
    TM = fixed_tables()[2]
    cs = [
        # C17-F1 (refuted opstate_constant / order_independent)
        {"ops": [op("reorder_columns", column_order=["b", "a"], ignore_missing=False, keep_others=True)],
         "tables": [T1, T2, T1]},
        # C17-F2
        {"ops": [op("factor_column", column_name="a")], "tables": [T1]},
        {"ops": [op("factor_column", column_name="a", factor_values=["1"])], "tables": [T1]},
        # C17-F3
        {"ops": [op("merge_consecutive", column_name="b", event_code="x", set_durations=False, ignore_missing=True)],
         "tables": [T1]},
        # C17-F4
        {"ops": [op("split_rows", anchor_column="b", new_events={"e": {"onset_source": [1], "duration": [0]}},
                    remove_parent_row=False)],
         "tables": [{"cols": ["onset", "duration", "b"], "rows": [[1, 2, "x"], [3, NA, "y"]]}]},
        # C17-F6
        {"ops": [op("merge_consecutive", column_name="b", event_code="x", set_durations=True, ignore_missing=True,
                    match_columns=["c"])], "tables": [TM]},
        {"ops": [op("merge_consecutive", column_name="b", event_code="x", set_durations=True, ignore_missing=True,
                    match_columns=[])],
         "tables": [{"cols": ["onset", "duration", "b"], "rows": [[1, 1, "x"], [2, 1, "y"], [3, 1, "x"], [4, 1, "x"]]}]},
        # C17-F8
        {"ops": [op("merge_consecutive", column_name="b", event_code="x", set_durations=True, ignore_missing=True,
                    match_columns=[])],
         "tables": [{"cols": ["b", "onset", "duration"], "rows": [["x", 3, NA], ["x", 1, 1], ["stop", NA, 2]]}]},
        # former finding C17-F10 (repaired by 67be5b4): the factor value "nan" must not flag n/a rows
        {"ops": [op("factor_column", column_name="a", factor_values=["nan", "x"], factor_names=["e", "f"])],
         "tables": [{"cols": ["a", "b"], "rows": [["nan", "1"], [NA, "2"], ["x", "3"]]}]},
        # former finding C17-F9 (repaired by 0437d48): integer_sources on a float64 column without missing cells
        {"ops": [op("remap_columns", source_columns=["a"], destination_columns=["e"], map_list=[[1, "one"], [2, "two"]],
                    ignore_missing=True, integer_sources=["a"])],
         "tables": [{"cols": ["a", "b"], "rows": [[1, "x"], [2, "y"]], "float_cols": ["a"]}]},
        # C17-F7
        {"ops": [op("remap_columns", source_columns=["a"], destination_columns=["a"], map_list=[["1", "one"]],
                    ignore_missing=True)], "tables": [T1]},
        # regression: full parameter sets
        {"ops": [op("factor_column", column_name="a", factor_values=["1", NA, "3"], factor_names=["f1", "fn", "c"])],
         "tables": [T1, T2]},
        {"ops": [op("merge_consecutive", column_name="b", event_code="x", set_durations=True, ignore_missing=True,
                    match_columns=[])], "tables": [TM, TM]},
        {"ops": [op("remap_columns", source_columns=["a", "b"], destination_columns=["c", "e"],
                    map_list=[["1", "x", "one", 5], [NA, "x", "two", NA], ["1", "x", "dup", "dup"], ["7", "7", "7", "7"]],
                    ignore_missing=True)], "tables": [fixed_tables()[0]]},
        {"ops": [op("rename_columns", column_mapping={"a": "z"}, ignore_missing=False),
                 op("remove_rows", column_name="z", remove_values=["1", 2]),
                 op("reorder_columns", column_order=["c", "z"], ignore_missing=True, keep_others=False)],
         "tables": [T1, fixed_tables()[0]]},
    ]
    for c in cs:
        c["expect_valid"] = spec_valid(c["ops"])
        c["kind"] = "corpus"
    return cs


def corpus_f5(rng):
    """A remap with exactly two keys whose hashes overflow pandas' range inference (depends on PYTHONHASHSEED)."""
    for _ in range(200):
        k1, k2 = rng.sample(["1", "2", "x", "stop", "a", "10", "b"], 2)
        o = op("remap_columns", source_columns=["a"], destination_columns=["e"], map_list=[[k1, "p"], [k2, "q"]],
               ignore_missing=True)
        if two_key_overflow(o):
            return [{"ops": [o], "tables": [fixed_tables()[0]], "expect_valid": True, "kind": "corpus"}]
    return []


# ------------------------------------------------------------------ run / replay

def translate():
    return T.translate()


def nontrivial(case):
    return case.get("expect_valid") is not False and any(t["rows"] for t in case["tables"])


def run(tier, seed, res, model_ok=True, proof_ok=True):
    rng = random.Random(seed)
    if not FIXED:
        res.known_ids = dict(getattr(res, "known_ids", {}), **LEGACY_FINDINGS)
    if not FIXED_F9:
        res.known_ids = dict(getattr(res, "known_ids", {}), **{"C17-F9": LEGACY_F9_F10["C17-F9"]})
    if not FIXED_F10:
        res.known_ids = dict(getattr(res, "known_ids", {}), **{"C17-F10": LEGACY_F9_F10["C17-F10"]})
    per = 10 if tier == "quick" else 60
    nrand = 1600 if tier == "quick" else 22000
    nbad = 300 if tier == "quick" else 3000
    if not proof_ok:
        per, nrand = per * 3, nrand * 3
    gaps = check_flags_cover_spec()
    if gaps:
        res.violation("generator-covers-specification", {"flags": gaps},
                      "the PARAMS in the tree have booleans/optional properties the generator does not enumerate", no_input=True)
    cases = corpus() + corpus_f5(random.Random(0)) + systematic_cases(rng, per) + random_cases(rng, nrand) \
        + malformed_cases(rng, nbad) + drop_cases(rng, 3 if tier == "quick" else 20) \
        + chain_cases(rng, 5 if tier == "quick" else 40, 200 if tier == "quick" else 3000) \
        + remap_cases(rng, 250 if tier == "quick" else 3000) \
        + remap_int_cases(rng, 200 if tier == "quick" else 2500) \
        + factor_na_cases(rng, 80 if tier == "quick" else 1000) \
        + file_cases(rng, 250 if tier == "quick" else 3000) + odd_name_cases(rng, 120 if tier == "quick" else 1500) \
        + malformed_key_cases(rng, 300 if tier == "quick" else 4000)
    with Pool(int(C.JOBS)) as pool:
        impl = pool.map(impl_one, cases, chunksize=50)

    flagged = set()
    for i, (case, r) in enumerate(zip(cases, impl)):
        probe = C.Result(PROP)
        probe.known_ids = res.known_ids
        oracle(case, r, probe)
        if probe.violations or probe.known:
            flagged.add(i)
        res.violations += probe.violations
        for k, v in probe.known.items():
            res.known[k] = res.known.get(k, 0) + v

    disagreements = 0
    unmodelled = 0
    if model_ok:
        exe = C.build_driver("c17")
        mod = C.run_driver(exe, [sx_line(c) for c in cases])
        for i, (case, r, m) in enumerate(zip(cases, impl, mod)):
            if m[0] == "unmodelled":
                unmodelled += 1
            d = compare_model(case, r, m)
            if d:
                disagreements += 1
                # C17-F5 is a pandas/hash-seed effect the model deliberately does not contain
                if i in flagged:
                    continue
                cc = {"ops": case["ops"], "tables": case["tables"]}
                if case.get("file_tables"):
                    cc["file_tables"] = case["file_tables"]
                res.violation("correspondence", cc, d, no_input=True)

    hist = {}
    for c in cases:
        hist[c["kind"]] = hist.get(c["kind"], 0) + 1
    hist["tables_per_case"] = {str(k): sum(1 for c in cases if len(c["tables"]) == k) for k in (1, 2, 3)}
    hist["model_unmodelled"] = unmodelled
    hist["impl_rejected"] = sum(1 for r in impl if r.get("messages"))
    hist["impl_raised"] = sum(1 for r in impl for o in r.get("results", []) if "exn" in o)
    distinct = len({json.dumps([c["ops"], c["tables"]], sort_keys=True) for c in cases if nontrivial(c)})
    return {
        "evaluations": len(cases),
        "distinct_nontrivial": distinct,
        "rule": "corpus (refuted witnesses + regressions) + every operation x every setting of its boolean flags and "
                f"optional parameters x {per} draws of (tables, processing order of 1-3 tables through ONE dispatcher) + "
                f"{nrand} random lists of 1-3 operations + {nbad} lists with one seeded specification fault + every ordered "
                "pair of operations (and sampled triples) built from the intermediate tables on event tables + remap_columns "
                "maps with repeated (also 1 / \"1\") keys at the beginning/middle/end among keys of the table + tables "
                "given as tsv FILE PATHS with every default-NA spelling as cell text + column names and malformed keys "
                "with non-word characters at every key level; "
                "non-trivial = specification-valid list and at least one table with rows",
        "samples": [cases[0], cases[len(cases) // 2], cases[-1]],
        "exhaustive": False,
        "fixed_semantics": bool(FIXED),
        "disagreements_checked": disagreements,
        "correspondence_cases": len(cases) if model_ok else 0,
        "histogram": hist,
    }


def replay(payload):
    case = payload.get("case")
    if not case or "ops" not in case:
        print("no concrete input in replay:", str(payload.get("detail", ""))[:500])
        return 1
    case = {"ops": case["ops"], "tables": case["tables"], "expect_valid": None,
            **({"file_tables": case["file_tables"]} if case.get("file_tables") else {})}
    r = impl_one(case)
    res = C.Result(PROP)
    res.known_ids = {}
    case2 = dict(case)
    clause = payload.get("clause", "")
    if clause == "invalid-reported-with-messages":
        case2["expect_valid"] = False
    elif clause == "valid-accepted":
        case2["expect_valid"] = True
    oracle(case2, r, res)
    print("impl:", json.dumps(r, default=str)[:1500])
    bad = list(res.violations)
    if clause == "correspondence":
        exe = C.build_driver("c17")
        m = C.run_driver(exe, [sx_line(case)])[0]
        d = compare_model(case, r, m)
        print("model:", str(m)[:800])
        if d:
            print("FAILS: correspondence", d)
            return 1
    for v in bad:
        print("FAILS:", v["clause"], str(v["detail"])[:300])
    return 1 if bad else 0
