"""C13 -- Library schemas and namespaces compose without changing meaning."""
import copy
import glob
import itertools
import os
import random
import re
import shutil
from multiprocessing import Pool

from harness import common as C
from harness import c13_gen
from harness import schema_xml as SX

PROP = "C13"
# 1 = the code as it is: /repo with fix commits 02171e0 (C13-F2), bb02e3e (C13-F3), 9d4df4f (C13-F4) (model argument
# fixed=true, the oracle demands the
# full statement for these classes); 0 = the code before them (fixed=false, the three classes are accepted as the
# recorded, repaired defects)
FIXED = int(os.environ.get("VERIF_C13_FIXED", "1"))
# 1 = the code as it is: fix commit 02f8597 (C13-F5: the tags are re-identified against the validator's schema before
# the tag character check) is in /repo; 0 = the behaviour before it (the F5 class is then accepted as the recorded defect)
FIXED5 = int(os.environ.get("VERIF_C13_FIXED_F5", "1"))   # fix: commit 02f8597 is in /repo
LEGACY = {
    "C13-F2": {"property": "C13", "id": "C13-F2", "what": "(repaired; VERIF_C13_FIXED=0) check_tag_formatting applied "
               "the pattern ^/ to the tag text including its namespace: 'sc:/Red/' one TAG_INVALID, '/Red/' two"},
    "C13-F3": {"property": "C13", "id": "C13-F3", "what": "(repaired; VERIF_C13_FIXED=0) check_capitalization looked at "
               "org_base_tag including the namespace: 'sc:3-periodic-discharge-phases' got a STYLE_WARNING"},
    "C13-F4": {"property": "C13", "id": "C13-F4", "what": "(repaired; VERIF_C13_FIXED=0) set_schema_prefix accepted a "
               "non-ASCII namespace ('é:') whose tags are all CHARACTER_INVALID under pre-8.3 rules"},
}
COQ_TARGETS = ["Props/C13.vo", "Extract/ExtractC13.vo"]
TRUSTED = [
    "Model/Namespace.v is a hand transcription of HedTag._get_schema_namespace/long_tag/org_base_tag, "
    "HedSchemaGroup (constructor, schema_for_namespace, find_tag_entry, get_tag_entry, get_tags_with_attribute), "
    "HedSchema (find_tag_entry, get_tag_entry, set_schema_prefix, _find_tag_entry and helpers), schema_83_props, "
    "HedSchemaTagSection registration, parse_version_list/_load_schema_version/_load_schema_version_sub, "
    "SchemaLoader merge pre-conditions/_add_to_dict_base/find_rooted_entry, _check_invalid_prefix_issues, "
    "check_invalid_character_issues, check_tag_formatting, check_capitalization, required/unique checks; tied by the "
    "correspondence run on every one of these functions",
    "all other validation rules are abstract functions R1,R2,R3 of the resolved tree, assumed namespace-blind "
    "(RUniform) in the equivalence theorems; the real rules are covered by the implementation-side oracle (testing)",
    "get_tags_with_attribute's set union is modelled as concatenation (names of different namespaces are distinct); "
    "only the tag section of schema files is modelled (units/attributes sections: tested on the implementation)",
    "Gen/UniTable_c13.v = CPython str.isalpha/isprintable over all code points (regenerated each run); casefold and "
    "capitalize are modelled by ASCII maps in the extracted driver, generators use only code points where they agree "
    "(checked at generation); the theorems are parametric in these maps",
    "regex ([ \\t/]{2,}|^/|/$) and CAMEL_CASE_EXPRESSION are hand-modelled (fmt_count, 'contains an ASCII capital'); "
    "'$' before a trailing newline is not modelled; semantic_version accepts only MAJOR.MINOR.PATCH in the model",
    "translator T4 (harness/schema_xml.py, xml.etree, independent of hed-python) for Gen/Schema_*_c13.v",
    "Model/NamespaceHist.v: the attribute cache of a schema section (entries cached, names formatted with the current "
    "namespace), set_schema_prefix on a loaded object, and HedTag re-identification (lookup from str(tag), extension kept "
    "unless replaced) / HedValidator applied to a HedString built with other schemas; re-identification is tied by a "
    "correspondence on single tags over pairs of configurations; the re-prefix history is checked on the implementation "
    "against freshly loaded schemas (testing)",
]
ASSUMPTIONS = [
    "prefixed_equiv/unprefixed_equiv are proved for ALL groups, schemas (arbitrary resolver) and annotation trees of the "
    "repaired code (fixed=true = /repo with fix commits 02171e0, bb02e3e, 9d4df4f) with the remaining side conditions explicit: same character-rule generation of group and "
    "schema (unrepaired C13-F1, refuted without it), no matching required/unique names in the other schemas, remainders "
    "are part of the tag text, other rules namespace-blind; the refutations of the behaviour before those commits (C13-F2/F3/F4) are kept "
    "as records of repaired defects (fixed=false)",
    "annotations are trees of tag texts: delimiter-level errors (parentheses, commas) are outside the model and only "
    "tested on the implementation",
    "partnered-contains-standard and the loader outcomes on the bundled schemas are kernel-evaluated (vm_compute) on "
    "translated data; the same relation over all tags is additionally enumerated on the implementation (testing)",
    "history theorems: (b) re-prefix/validate sequences -- proved for ALL sequences, cache-fill policies and groups; (a) an "
    "object built under A and judged under B -- for the code as it is (fix commit 02f8597 in /repo, fixed5=true) partial "
    "with ONE hypothesis, the absence of the open finding C13-F6 (refuted by a witness replayed on the code); the "
    "refutation of the behaviour before 02f8597 (C13-F5) is kept as the record of that repaired defect; the cache model "
    "of (b) holds unprefixed entry names as the code does -- the variant caching prefixed names is refuted as a contrast",
    "ASSUMED, not proved: every validation rule other than the six namespace-sensitive mechanisms is an arbitrary function "
    "R1,R2,R3 required to be namespace-blind (RUniform, shown satisfiable by two instances); for the real rules (units, "
    "value classes, definitions, duplicates, placement, temporal) this is tested only",
    "partner merge: general theorems are conditional (no colliding name) or 'unchanged or a duplicate is recorded' for "
    "ordinary names; unconditional for all forms incl. '#' nodes only on the five bundled pairings (kernel evaluation)",
    "unit classes, units and unit modifiers are NOT modelled: the equivalence over annotations with unit-class values "
    "(generated from the schema's own unit/modifier tables, well- and ill-formed) and over configurations with several "
    "libraries merged under one non-empty prefix is tested on the implementation only; the model proves only that the "
    "merged TAG table does not depend on the prefix",
    "construction route is a generator dimension: multi-library configurations are also built step by step with "
    "load_schema/from_string (schema_namespace= on the first library, schema= for the merges, namespace repeated or "
    "not) and must behave as the load_schema_version form; the loader model proves the route equalities for the tag section",
    "'same library twice' is read as: the same version text twice under ONE prefix (the same library under two "
    "different prefixes is accepted by the code and by the model; both sides are tested)",
]
DRIVERS = ["c13"]

KIND2CODE = {"NoValidTagFound": "TAG_INVALID", "InvalidParentNode": "TAG_EXTENSION_INVALID",
             "LibraryUnmatched": "TAG_NAMESPACE_PREFIX_INVALID", "CharacterInvalid": "CHARACTER_INVALID",
             "TildesUnsupported": "TILDES_UNSUPPORTED", "RequiredTagMissing": "REQUIRED_TAG_MISSING",
             "TagNotUnique": "TAG_NOT_UNIQUE"}

ALL_KEYS = ["8_0_0", "8_1_0", "8_2_0", "8_3_0", "score_1_0_0", "score_1_1_0", "score_2_0_0",
            "testlib_1_0_2", "testlib_2_0_0", "testlib_2_1_0", "testlib_3_0_0"]
PAIRS = [("8_3_0", "score_2_0_0"), ("8_2_0", "score_1_1_0"), ("8_2_0", "testlib_2_0_0"),
         ("8_2_0", "testlib_2_1_0"), ("8_2_0", "testlib_3_0_0")]


def vkey(k):
    return c13_gen.version_key(k)


def fname(k):
    return ("HED" if "_" not in vkey(k) else "HED_") + vkey(k) + ".xml"


# configurations: (version list, {prefix: schema key})
CONFIGS_QUICK = [
    # an 8.3-generation pairing in which NO schema is left unprefixed
    (["st:8.3.0", "lb:score_2.0.0"], {"st:": "8_3_0", "lb:": "score_2_0_0"}),
    # the same kind of configuration built step by step with load_schema(..., schema=lib), namespace not repeated
    (["~ls_merge", "8.2.0", "x:score_1.1.0", "x:testlib_2.0.0"], {"": "8_2_0", "x:": "score_1_1_0+testlib_2_0_0"}),
    # several partnered libraries merged under ONE non-empty prefix (the merge re-finalises a prefixed schema)
    (["8.2.0", "x:score_1.1.0", "x:testlib_2.0.0"], {"": "8_2_0", "x:": "score_1_1_0+testlib_2_0_0"}),
    (["8.2.0", "sc:score_1.1.0", "tl:testlib_2.0.0"], {"": "8_2_0", "sc:": "score_1_1_0", "tl:": "testlib_2_0_0"}),
    (["testlib_3.0.0", "xx:8.2.0", "t:testlib_2.1.0"], {"": "testlib_3_0_0", "xx:": "8_2_0", "t:": "testlib_2_1_0"}),
    (["8.3.0", "sc:score_2.0.0", "tl:testlib_3.0.0"], {"": "8_3_0", "sc:": "score_2_0_0", "tl:": "testlib_3_0_0"}),
    (["8.2.0", "score:score_2.0.0"], {"": "8_2_0", "score:": "score_2_0_0"}),
]
if not FIXED:
    CONFIGS_QUICK.append((["8.2.0", "é:testlib_2.0.0"], {"": "8_2_0", "é:": "testlib_2_0_0"}))
else:
    CONFIGS_QUICK.append((["sc:score_1.1.0", "tl:testlib_3.0.0"], {"sc:": "score_1_1_0", "tl:": "testlib_3_0_0"}))
CONFIGS_MORE = [
    (["8.3.0", "sc:score_2.0.0"], {"": "8_3_0", "sc:": "score_2_0_0"}),
    (["xx:testlib_2.1.0", "tl:score_1.1.0"], {"xx:": "testlib_2_1_0", "tl:": "score_1_1_0"}),
    (["sc:score_2.0.0", "xx:8.3.0"], {"sc:": "score_2_0_0", "xx:": "8_3_0"}),
    (["tl:testlib_2.0.0", "sc:testlib_2.1.0", "8.2.0"], {"tl:": "testlib_2_0_0", "sc:": "testlib_2_1_0", "": "8_2_0"}),
    (["8.3.0", "tl:testlib_2.0.0"], {"": "8_3_0", "tl:": "testlib_2_0_0"}),
    (["score_1.1.0", "tl:8.2.0"], {"": "score_1_1_0", "tl:": "8_2_0"}),
    (["testlib_2.0.0", "tl:testlib_2.0.0"], {"": "testlib_2_0_0", "tl:": "testlib_2_0_0"}),
]

# configurations that are ONE schema object: a one-element list, a plain HedSchema from load_schema ("@key"), libraries
# merged under the unprefixed namespace ("!key": tag names come from that file, there is no single file to compare
# with), a single schema with a prefix.  Every foreign prefix must be an error here too.
CONFIGS_SINGLE = [
    (["8.3.0"], {"": "8_3_0"}),
    (["@8_2_0"], {"": "8_2_0"}),
    (["score_1.1.0", "testlib_2.0.0"], {"": "score_1_1_0+testlib_2_0_0"}),
    (["tl:testlib_3.0.0"], {"tl:": "testlib_3_0_0"}),
    (["lib:score_1.1.0,testlib_2.1.0"], {"lib:": "score_1_1_0+testlib_2_1_0"}),      # text form, nothing unprefixed
    (["~fs_merge", "lib:testlib_2.0.0", "lib:score_1.1.0"], {"lib:": "testlib_2_0_0+score_1_1_0"}),   # from_string route
]
CONFIGS_SINGLE_MORE = [
    (["sc:score_2.0.0"], {"sc:": "score_2_0_0"}),
    (["@testlib_2_1_0"], {"": "testlib_2_1_0"}),
    (["xx:score_1.1.0", "xx:testlib_2.1.0"], {"xx:": "score_1_1_0+testlib_2_1_0"}),
    (["st:8.2.0", "ab:testlib_2.0.0,score_1.1.0"], {"st:": "8_2_0", "ab:": "testlib_2_0_0+score_1_1_0"}),
    (["~ls_merge_repeat", "8.2.0", "x:score_1.1.0", "x:testlib_2.1.0"], {"": "8_2_0", "x:": "score_1_1_0+testlib_2_1_0"}),
    (["~fs_merge_repeat", "sc:score_1.1.0", "sc:testlib_2.0.0", "8.2.0"], {"sc:": "score_1_1_0+testlib_2_0_0", "": "8_2_0"}),
    (["~ls_merge", "score_1.1.0", "testlib_2.0.0"], {"": "score_1_1_0+testlib_2_0_0"}),
    (["~fs_merge", "8.3.0", "sc:score_2.0.0"], {"": "8_3_0", "sc:": "score_2_0_0"}),
]


# history (a): (configuration A with its prefix map, configurations B the A-built objects are judged under)
CROSS = [
    ((["8.2.0", "sc:score_1.1.0"], {"": "8_2_0", "sc:": "score_1_1_0"}),
     [["8.2.0", "sc:testlib_2.0.0"], ["8.2.0"], ["8.2.0", "sc:score_1.1.0"], ["8.2.0", "tl:score_1.1.0"]]),
    ((["8.2.0"], {"": "8_2_0"}), [["testlib_2.0.0"], ["sc:8.2.0"]]),
    ((["testlib_2.0.0"], {"": "testlib_2_0_0"}), [["8.2.0"], ["testlib_2.1.0"]]),
    ((["8.3.0", "sc:score_2.0.0"], {"": "8_3_0", "sc:": "score_2_0_0"}), [["8.3.0"], ["sc:score_2.0.0"], ["8.2.0", "sc:score_1.1.0"]]),
]
CROSS_MORE = [
    ((["8.2.0", "tl:testlib_2.1.0"], {"": "8_2_0", "tl:": "testlib_2_1_0"}),
     [["8.2.0", "tl:testlib_3.0.0"], ["tl:testlib_2.1.0"], ["testlib_2.1.0"], ["8.3.0", "tl:score_2.0.0"]]),
    ((["score_1.1.0", "testlib_2.0.0"], {"": "score_1_1_0"}), [["score_1.1.0"], ["testlib_2.0.0"], ["8.2.0"]]),
]
# history (b): (library, its standard partner); a schema with a `required` tag is generated from testlib_2.0.0
REPREFIX = [("score_1_1_0", "8_2_0"), ("testlib_2_0_0", "8_2_0"), ("score_2_0_0", "8_3_0"), ("REQ", "8_2_0")]
UNIQ_ANNS = [
    [("G", [("T", "Event-context"), ("T", "Red")]), ("G", [("T", "Event-context"), ("T", "Blue")])],
    [("G", [("T", "Event-context"), ("T", "Red")]), ("G", [("T", "Property/Organizational-property/Event-context"), ("T", "Blue")])],
    [("G", [("T", "Event-context"), ("T", "Red")]), ("T", "Sensory-event")],
    [("T", "Sensory-event"), ("T", "Red"), ("G", [("T", "Item"), ("T", "Blue")])],
    [("T", "Red")],
    [("G", [("T", "event-context"), ("T", "Red")]), ("G", [("T", "EVENT-CONTEXT"), ("G", [("T", "Blue")])]), ("T", "Sensory-event")],
]


def make_required_schema(cache, scratch):
    """a copy of testlib_2.0.0 in which Sensory-event carries the `required` attribute"""
    src = open(os.path.join(cache, fname("testlib_2_0_0")), encoding="utf8").read()
    marker = "<name>Sensory-event</name>"
    if src.count(marker) != 1:
        raise ValueError("cannot build the required-tag schema: marker not unique")
    out = src.replace(marker, marker + "<attribute><name>required</name></attribute>")
    pth = os.path.join(scratch, "HED_reqlib_2.0.0.xml")
    with open(pth, "w", encoding="utf8") as f:
        f.write(out)
    return pth


def gen_cross_text(rng, pmap, tagsets):
    """an annotation whose tags carry the prefixes of configuration A (mixed), valid and invalid forms"""
    parts = []
    for _ in range(rng.randint(1, 3)):
        p = rng.choice(list(pmap.keys()))
        tags = tagsets[pmap[p]]
        x = rng.random()
        if x < 0.55:
            t = gen_tag(rng, tags, exotic=False)
        elif x < 0.8:
            n = rng.choice(tags)["long"].split("/")
            n = n[:-1] if n[-1] == "#" else n
            t = "/".join(n[-2:]) + rng.choice(["", "", "/Ext", "/a b"])
        else:
            n = rng.choice(tags)["long"].split("/")
            t = (n[-1] if n[-1] != "#" else n[-2]) + "/" + rng.choice(["a b", "x$y", "Ext-1", "3 ms", "Red"])
        if not unprefixed_ok([("T", t)]):
            t = "Red"
        parts.append(p + t)
    if rng.random() < 0.3:
        return "(" + ", ".join(parts) + ")"
    return ", ".join(parts)


def gen_reprefix_ops(rng, n):
    ops = []
    for _ in range(n):
        if rng.random() < 0.45:
            ops.append(("prefix", rng.choice(["", "sc", "sc:", "tl:", "ab", "x:", "t1:", "é:", "sc", ""])))
        else:
            ops.append(("validate", rng.choice(UNIQ_ANNS), rng.random() < 0.3))
    if not any(o[0] == "validate" for o in ops):
        ops.append(("validate", UNIQ_ANNS[0], False))
    return ops


# Construction ROUTE of a configuration (an input dimension): a version list whose first element is "~route" is not
# handed to load_schema_version but built step by step with the public loaders -- the first library of every prefix
# with schema_namespace=..., the further ones merged into that object through the `schema=` parameter, with
# ("_repeat") or without repeating the namespace; several objects are assembled with HedSchemaGroup.
ROUTES = ["~ls_merge", "~ls_merge_repeat", "~fs_merge", "~fs_merge_repeat"]


def version_file(v):
    return ("HED" if "_" not in v else "HED_") + v + ".xml"


def build_route(route, vlist, folder):
    from hed.schema import load_schema, from_string
    from hed.schema.hed_schema_group import HedSchemaGroup
    groups = {}
    for v in vlist:
        ns, _, ver = v.partition(":") if ":" in v else ("", "", v)
        for x in ver.split(","):
            groups.setdefault(ns, []).append(os.path.join(folder, version_file(x)))
    objs = []
    for ns, files in groups.items():
        obj = None
        for f in files:
            kw = {}
            if obj is not None:
                kw["schema"] = obj
            if ns and (obj is None or route.endswith("_repeat")):
                kw["schema_namespace"] = ns
            if route.startswith("~fs"):
                with open(f, encoding="utf8") as fh:
                    obj = from_string(fh.read(), schema_format=".xml", **kw)
            else:
                obj = load_schema(f, **kw)
        objs.append(obj)
    return objs[0] if len(objs) == 1 else HedSchemaGroup(objs)


def model_vlist(vlist):
    """the version list the model is given for a configuration (routes and "@key" are the implementation's business)"""
    vlist = [v for v in vlist if not v.startswith("~")]
    return [vkey(v[1:]) if v.startswith("@") else v for v in vlist]


# ---------------------------------------------------------------- worker side (implementation)

_W = {}


def _init(cache_dir):
    _W["dir"] = cache_dir
    _W["groups"] = {}
    _W["singles"] = {}
    _W["forced"] = {}
    from hed.schema import hed_cache
    hed_cache.set_cache_directory(cache_dir)


def w_group(vlist):
    k = tuple(vlist)
    if len(k) == 1 and k[0].startswith("@"):
        return w_single(k[0][1:])
    if k not in _W["groups"]:
        if k[0].startswith("~"):
            _W["groups"][k] = build_route(k[0], list(k[1:]), _W["dir"])
        else:
            from hed.schema import load_schema_version
            _W["groups"][k] = load_schema_version(list(vlist), xml_folder=_W["dir"])
    return _W["groups"][k]


def w_single(key):
    """p's schema ALONE, unprefixed: one file, or ("a+b") several libraries merged under the unprefixed namespace"""
    if key not in _W["singles"]:
        if "+" in key:
            from hed.schema import load_schema_version
            _W["singles"][key] = load_schema_version([vkey(k) for k in key.split("+")], xml_folder=_W["dir"])
        else:
            from hed.schema import load_schema
            _W["singles"][key] = load_schema(os.path.join(_W["dir"], fname(key)))
    return _W["singles"][key]


def w_forced(key, flag):
    if (key, flag) not in _W["forced"]:
        s = copy.deepcopy(w_single(key))
        s._schema83 = flag
        _W["forced"][(key, flag)] = s
    return _W["forced"][(key, flag)]


def codes_of(text, schema):
    from hed.models.hed_string import HedString
    try:
        return sorted((i["code"], i["severity"]) for i in HedString(text, schema).validate())
    except Exception as e:  # noqa
        return [("EXN:" + type(e).__name__ + ":" + str(e)[:60], 0)]


def judged(text, schema):
    """(codes, places): places = for every issue that names a part of a tag, (code, severity, start, end, fragment) with
    the positions counted from the end of the tag's namespace and the fragment cut from the tag as written"""
    from hed.models.hed_string import HedString
    try:
        issues = HedString(text, schema).validate()
    except Exception as e:  # noqa
        return [("EXN:" + type(e).__name__ + ":" + str(e)[:60], 0)], []
    places = []
    for i in issues:
        if i.get("index_in_tag") is None or "source_tag" not in i:
            continue
        tag = i["source_tag"]
        org = getattr(tag, "org_tag", str(tag))
        n = len(getattr(tag, "schema_namespace", "") or "")
        a, b = i["index_in_tag"], i.get("index_in_tag_end")
        if a in (0, n) and (b is None or b == len(org)):
            places.append((i["code"], i["severity"], "whole tag", "", org[n:]))     # the issue names the tag as a whole
        else:
            places.append((i["code"], i["severity"], a - n, None if b is None else b - n, org[a:b]))
    return sorted((i["code"], i["severity"]) for i in issues), sorted(places, key=repr)


def render(items, p):
    return ", ".join(("(" + render(x, p) + ")") if k == "G" else (p + x) for k, x in items)


def tags_of(items):
    out = []
    for k, x in items:
        out += tags_of(x) if k == "G" else [x]
    return out


def t_equiv(task):
    """(vlist, [(prefix, key, [annotation trees])]) -> per prefix, per annotation (group verdict, alone verdict, alone
    verdict with the group's character-rule flag or None, group flag, alone flag)"""
    vlist, plist = task
    G = w_group(vlist)
    gf = bool(G.schema_83_props)
    res = []
    for p, key, anns in plist:
        S = w_single(key)
        sf = bool(S.schema_83_props)
        out = []
        for a in anns:
            g, gp = judged(render(a, p), G)
            s, sp = judged(render(a, ""), S)
            f = None
            if g != s and gf != sf:
                f = codes_of(render(a, ""), w_forced(key, gf))
            elif g == s and gp != sp and gf != sf:
                f = ("places", judged(render(a, ""), w_forced(key, gf))[1])
            out.append((g, s, f, gf, sf, gp, sp))
        res.append(out)
    return res


def t_badprefix(task):
    """(vlist, [texts]) -> verdicts against the group"""
    vlist, texts = task
    G = w_group(vlist)
    return [codes_of(t, G) for t in texts]


def t_pieces(texts):
    """per tag text: namespace, #prefix issues, #formatting issues, character issues under both rule sets"""
    from hed.models.hed_tag import HedTag
    from hed.validator.hed_validator import HedValidator
    from hed.validator.util.char_util import CharValidator
    S = w_single("8_3_0")
    hv = HedValidator(S)
    out = []
    for t in texts:
        try:
            tag = HedTag(t, S)
            out.append({"ns": HedTag._get_schema_namespace(t), "ns_attr": tag.schema_namespace,
                        "pfx": len(CharValidator._check_invalid_prefix_issues(tag)),
                        "fmt": len(hv.check_tag_formatting(tag)),
                        "c1": [i["code"] for i in CharValidator(True).check_invalid_character_issues(t, False)],
                        "c0": [i["code"] for i in CharValidator(False).check_invalid_character_issues(t, False)]})
        except Exception as e:  # noqa
            out.append({"exn": type(e).__name__ + ":" + str(e)[:80]})
    return out


def t_setprefix(prefixes):
    from hed.schema.hed_schema import HedSchema
    from hed.errors.exceptions import HedFileError
    out = []
    for p in prefixes:
        s = HedSchema()
        try:
            s.set_schema_prefix(p)
            out.append(["ok", s._namespace])
        except HedFileError as e:
            out.append(["exn", "HedFileError", e.code])
        except Exception as e:  # noqa
            out.append(["exn", type(e).__name__])
    return out


def t_pvl(lists):
    from hed.schema.hed_schema_io import parse_version_list
    from hed.errors.exceptions import HedFileError
    out = []
    for l in lists:
        try:
            d = parse_version_list(list(l))
            out.append(["ok", [[k, v] for k, v in d.items()]])
        except HedFileError as e:
            out.append(["err", e.code])
        except Exception as e:  # noqa
            out.append(["exn", type(e).__name__])
    return out


def t_load(vlist):
    from hed.schema import load_schema_version
    from hed.errors.exceptions import HedFileError
    from hed.schema.hed_schema_group import HedSchemaGroup
    try:
        s = load_schema_version(list(vlist), xml_folder=_W["dir"])
    except HedFileError as e:
        return ["err", e.code, "HedFileError"]
    except Exception as e:  # noqa
        return ["err", "", type(e).__name__]
    schemas = list(s._schemas.values()) if isinstance(s, HedSchemaGroup) else [s]
    return ["ok", [[x._namespace, x.library, x.version_number, x.with_standard, bool(x.merged),
                    len(x.tags.all_entries), bool(x.has_duplicates())] for x in schemas],
            [sorted(x.tags.duplicate_names.keys()) for x in schemas]]


def attr_canon(d):
    return sorted((k, "" if v is True else str(v)) for k, v in d.items())


def t_entries(vlist):
    """all tag entries of every schema of the configuration"""
    from hed.schema.hed_schema_group import HedSchemaGroup
    s = w_group(vlist)
    schemas = list(s._schemas.values()) if isinstance(s, HedSchemaGroup) else [s]
    return [sorted((e.name, e.long_tag_name, e.short_tag_name, tuple(attr_canon(e.attributes)))
                   for e in x.tags.all_entries) for x in schemas]


def t_resolve(task):
    vlist, texts = task
    from hed.models.hed_tag import HedTag
    from hed.validator.util.tag_util import TagValidator
    G = w_group(vlist)
    tv = TagValidator()
    out = []
    for t in texts:
        try:
            tag = HedTag(t, G)
            iss = tag._calculate_to_canonical_forms(G)
            e = tag._schema_entry
            ns = HedTag._get_schema_namespace(t)
            e2, rem, iss2 = G.find_tag_entry(t, ns)
            ge = G.get_tag_entry(t, schema_namespace=ns)
            out.append({"ns": tag.schema_namespace, "found": e is not None, "name": e.name if e else "",
                        "long": e.long_tag_name if e else "", "rem": rem,
                        "same": (e2 is e) and sorted(i["code"] for i in iss2) == sorted(i["code"] for i in iss),
                        "codes": sorted(i["code"] for i in iss), "long_tag": tag.long_tag, "obt": tag.org_base_tag,
                        "cap": len(tv.check_capitalization(tag)), "getent": ge.name if ge else None,
                        "span": next(([i["index_in_tag"], i["index_in_tag_end"]] for i in iss
                                      if i["code"] == "TAG_EXTENSION_INVALID" and i.get("index_in_tag") is not None), None)})
        except Exception as ex:  # noqa
            out.append({"exn": type(ex).__name__ + ":" + str(ex)[:80]})
    return out


def t_grouprules(task):
    vlist, lists = task
    from hed.models.hed_tag import HedTag
    from hed.validator.util.group_util import GroupValidator
    G = w_group(vlist)
    gv = GroupValidator(G)
    out = []
    for l in lists:
        tags = [HedTag(t, G) for t in l]
        out.append(sorted(i["code"] for i in gv.check_for_required_tags(tags) + gv.check_multiple_unique_tags_exist(tags)))
    return out


def t_twa(vlist):
    from hed.schema.hed_schema_constants import HedKey
    G = w_group(vlist)
    return [sorted(G.get_tags_with_attribute(HedKey.Required)), sorted(G.get_tags_with_attribute(HedKey.Unique)),
            bool(G.schema_83_props)]


def t_config(task):
    """everything that needs one loaded configuration, in one worker"""
    vlist, bad_texts, res_texts, grp_lists, want_entries = task
    return (t_badprefix((vlist, bad_texts)), t_resolve((vlist, res_texts)), t_grouprules((vlist, grp_lists)),
            t_twa(vlist), t_entries(vlist) if want_entries else None)


def guarded(f, task):
    try:
        return f(task)
    except Exception as e:  # noqa  (a configuration that no longer loads is reported with its version list)
        code = getattr(e, "code", "")
        return {"fail": f"{type(e).__name__}:{code}:{str(getattr(e, 'message', e))[:160]}"}


def g_equiv(task):
    return guarded(t_equiv, task)


def g_config(task):
    return guarded(t_config, task)


def g_entries(task):
    return guarded(t_entries, task)


def g_partner(task):
    return guarded(t_partner, task)


def g_unmerged(task):
    return guarded(t_unmerged, task)


def g_cross(task):
    return guarded(t_cross, task)


def g_reprefix(task):
    return guarded(t_reprefix, task)


def t_cross(task):
    """history (a): annotation objects built under configuration A, judged by a validator for configuration B.
    -> per text (verdict of the A-built object, verdict of a freshly built object, verdict of an A-built object whose
    tags are re-identified against B before validation [only when the first two differ])"""
    vlistA, vlistB, texts = task
    from hed.models.hed_string import HedString
    from hed.validator import HedValidator
    A, B = w_group(vlistA), w_group(vlistB)
    hv = HedValidator(B)

    def judge(hs):
        try:
            return sorted((i["code"], i["severity"]) for i in hv.validate(hs, allow_placeholders=False))
        except Exception as e:  # noqa
            return [("EXN:" + type(e).__name__ + ":" + str(e)[:60], 0)]
    out = []
    for t in texts:
        cross = judge(HedString(t, A))
        fresh = judge(HedString(t, B))
        pre = emul = None
        f6able = False
        if cross != fresh:
            # cause of class C13-F6: a tag whose short form under A is not its own text (re-identification starts from
            # that short form), or whose extension under A is not the one B finds (an unreplaced extension is kept)
            for ta, tb in zip(HedString(t, A).get_all_tags(), HedString(t, B).get_all_tags()):
                if str(ta) != ta.org_tag or (ta._extension_value and tb._extension_value != ta._extension_value):
                    f6able = True
            hs = HedString(t, A)
            hs._calculate_to_canonical_forms(B)
            pre = judge(hs)
            if pre != fresh:
                # What re-identification is DOCUMENTED to do before fix commit 02f8597 (class C13-F6): each tag is looked up
                # again from its current short form (the one of the entry it had under A), and an extension that the
                # new lookup does not replace is kept.  Rebuilt here on a fresh object with B's own lookup function.
                try:
                    hsA, hsB = HedString(t, A), HedString(t, B)
                    for ta, tb in zip(hsA.get_all_tags(), hsB.get_all_tags()):
                        e, rem, _ = B.find_tag_entry(str(ta), ta.schema_namespace)
                        tb._schema_entry = e
                        tb.tag_terms = e.tag_terms if e else tuple()
                        tb._extension_value = rem if (e and rem) else ta._extension_value
                        if e is None and str(ta) != ta.org_tag:
                            tb._tag = None
                    emul = judge(hsB)
                except Exception as ex:  # noqa
                    emul = [("EMUL-EXN:" + type(ex).__name__, 0)]
            if FIXED5:
                # what the code as it is (fix commit 02f8597) is documented to do for such an object (class C13-F6): exactly one
                # re-identification from the current short form (old extension kept unless replaced), then all checks
                # on that state.  Rebuilt on a fresh object with B's own lookup; its re-identification is a stub.
                try:
                    hsA, hsB = HedString(t, A), HedString(t, B)
                    for ta, tb in zip(hsA.get_all_tags(), hsB.get_all_tags()):
                        e, rem, iss = B.find_tag_entry(str(ta), ta.schema_namespace)
                        tb._schema_entry, tb._schema = e, B
                        tb.tag_terms = e.tag_terms if e else tuple()
                        tb._extension_value = rem if (e and rem) else ta._extension_value
                        tb._calculate_to_canonical_forms = (lambda i: (lambda schema: i))(iss)
                    emul = judge(hsB)
                except Exception as ex:  # noqa
                    emul = [("EMUL-EXN:" + type(ex).__name__, 0)]
        out.append((cross, fresh, pre, emul, f6able))
    return out


def t_reid(task):
    """re-identification of single tag objects: HedTag(t, A) then _calculate_to_canonical_forms(B)"""
    vlistA, vlistB, texts = task
    from hed.models.hed_tag import HedTag
    A, B = w_group(vlistA), w_group(vlistB)
    out = []
    for t in texts:
        try:
            tag = HedTag(t, A)
            before = str(tag)
            iss = tag._calculate_to_canonical_forms(B)
            e = tag._schema_entry
            out.append([e.name if e else None, tag._extension_value, sorted(i["code"] for i in iss), before])
        except Exception as ex:  # noqa
            out.append({"exn": type(ex).__name__ + ":" + str(ex)[:80]})
    return out


def g_reid(task):
    return guarded(t_reid, task)


def t_reprefix(task):
    """history (b): ONE library schema object; operations ("prefix", p) = set_schema_prefix(p) and ("validate", tree) =
    validate the annotation written with the current prefix (the library alone when unprefixed or `alone`, otherwise in a
    HedSchemaGroup next to its standard schema).  Each validation is compared with a freshly loaded schema that was
    given the current prefix at load time."""
    path, stdkey, ops = task
    from hed.schema import load_schema
    from hed.schema.hed_schema_group import HedSchemaGroup
    from hed.errors.exceptions import HedFileError
    from hed.models.hed_string import HedString
    from hed.validator import HedValidator
    S = load_schema(path)
    std = w_single(stdkey)
    fresh = {}
    out = []
    for op in ops:
        if op[0] == "prefix":
            try:
                S.set_schema_prefix(op[1])
                out.append(("prefix", op[1], S._namespace))
            except HedFileError:
                out.append(("prefix", op[1], "refused:" + S._namespace))
            continue
        ns = S._namespace
        alone = op[2] or not ns
        if ns not in fresh:
            fresh[ns] = load_schema(path, schema_namespace=ns) if ns else load_schema(path)
        F = fresh[ns]
        cfg_h = S if alone else HedSchemaGroup([std, S])
        cfg_f = F if alone else HedSchemaGroup([std, F])
        text = render(op[1], ns)

        def judge(cfg):
            try:
                return sorted((i["code"], i["severity"])
                              for i in HedValidator(cfg).validate(HedString(text, cfg), allow_placeholders=False))
            except Exception as e:  # noqa
                return [("EXN:" + type(e).__name__ + ":" + str(e)[:60], 0)]
        out.append(("validate", ns, text, judge(cfg_h), judge(cfg_f)))
    return out


def t_partner(task):
    """clause 4 on the implementation, all tags: (std key, lib key, std tags from the XML, library tags from the XML)"""
    bkey, lkey, std_tags, lib_tags = task
    from hed.schema.hed_schema_constants import HedKey
    B = w_single(bkey)
    L = w_single(lkey)
    bad = []
    n = 0
    for e in B.tags.all_entries:
        n += 1
        for form in (e.name, e.short_tag_name if not e.name.endswith("/#") else e.short_tag_name + "/#"):
            x = L.tags.get(form)
            if x is None:
                bad.append((form, "missing in library"))
                continue
            if (x.name, x.long_tag_name, x.short_tag_name) != (e.name, e.long_tag_name, e.short_tag_name):
                bad.append((form, f"names differ {x.name}"))
            a1 = {k: v for k, v in x.attributes.items() if k != HedKey.InLibrary}
            if attr_canon(a1) != attr_canon(e.attributes):
                bad.append((form, f"attributes differ {attr_canon(a1)} vs {attr_canon(e.attributes)}"))
            if x.has_attribute(HedKey.InLibrary):
                bad.append((form, "standard tag marked inLibrary"))
            i1 = {k: v for k, v in x.inherited_attributes.items() if k != HedKey.InLibrary}
            if attr_canon(i1) != attr_canon(e.inherited_attributes):
                bad.append((form, "inherited attributes differ"))
        fe, rem, iss = L.find_tag_entry(e.long_tag_name, "")
        if fe is None or fe.long_tag_name != e.long_tag_name or iss:
            bad.append((e.name, "find_tag_entry differs"))
    # independent reading of the files: every standard node and every library node is present
    for long, attrs in std_tags:
        x = L.tags.get(long)
        if x is None or x.name != long or x.has_attribute(HedKey.InLibrary) or \
                attr_canon({k: (v if v is True else ",".join(v)) for k, v in attrs.items()}) != attr_canon(x.attributes):
            bad.append((long, "standard node of the XML not found unchanged in the library schema"))
    for long, attrs in lib_tags:
        x = L.tags.get(long)
        if x is None or x.name != long or not x.has_attribute(HedKey.InLibrary):
            bad.append((long, "library's own tag missing"))
    return n + len(std_tags) + len(lib_tags), bad[:20]


def t_unmerged(lkey):
    """save a bundled partnered library unmerged, load it again (partner merge path) and compare with the merged load"""
    from hed.schema import from_string
    L = w_single(lkey)
    xml = L.get_as_xml_string(save_merged=False)
    try:
        U = from_string(xml, schema_format=".xml")
    except Exception as e:  # noqa
        return {"exn": type(e).__name__ + ":" + str(e)[:100]}
    ent = lambda s: sorted((e.name, e.long_tag_name, e.short_tag_name, tuple(attr_canon(e.attributes)))
                           for e in s.tags.all_entries)
    return {"xml": xml, "same": ent(L) == ent(U), "entries": ent(U), "dups": bool(U.has_duplicates())}


# ---------------------------------------------------------------- generators

def fold_ok(s):
    return all(len(c.casefold()) == 1 and (c.casefold() == c or ord(c) < 128) for c in s)


def unit_values(sch):
    """For every value node with a unitClass: unit expressions of all kinds the schema defines -- plain units, SI name
    modifiers on unit names, SI symbol modifiers on unit symbols, plurals, prefix units -- plus ill-formed ones
    (symbol modifier on a name, doubled modifier, bare modifier, wrong case of a symbol, unit of another class)."""
    mods_name = [m["name"] for m in sch["unit_modifiers"] if "SIUnitModifier" in m["attrs"]]
    mods_sym = [m["name"] for m in sch["unit_modifiers"] if "SIUnitSymbolModifier" in m["attrs"]]
    classes = {}
    for uc in sch["unit_classes"]:
        good, bad, pre = [], [], []
        for u in uc["units"]:
            a, n = u["attrs"], u["name"]
            if "unitPrefix" in a:
                pre.append(n)
                continue
            good.append(n)
            sym = "unitSymbol" in a
            if not sym:
                good.append(n + "s")
            else:
                bad.append(n.swapcase() if n.swapcase() != n else n + n)
            if "SIUnit" in a:
                good += [m + n for m in (mods_sym if sym else mods_name)[::3]]
                bad += [m + n for m in (mods_name if sym else mods_sym)[:2]]
                bad += [(mods_sym if sym else mods_name)[0] * 2 + n] if (mods_sym if sym else mods_name) else []
            if not sym and "SIUnit" in a:
                good += [m + n + "s" for m in mods_name[:2]]
        bad += mods_name[:1] + mods_sym[:1]
        classes[uc["name"]] = (good, bad, pre)
    allgood = [g for c in classes.values() for g in c[0]]
    out = {}
    for t in sch["tags"]:
        ucs = t["attrs"].get("unitClass")
        if t["short"] != "#" or not ucs or ucs is True:
            continue
        vals = []
        for c in ucs:
            good, bad, pre = classes.get(c, ([], [], []))
            vals += [("v", g) for g in good] + [("v", b) for b in bad] + [("p", x) for x in pre]
        vals += [("v", g) for g in allgood[::17]]
        out[t["long"]] = vals
    return out


def gen_unit_value(rng, vals):
    kind, u = rng.choice(vals)
    num = rng.choice(["3", "2.5", "250", "-1", "0.001", "1e3", "3", "2"])
    if kind == "p":
        return rng.choice([u + " " + num, u + num, num + " " + u])
    return rng.choice([num + " " + u, num + " " + u, num + " " + u, num + u, num + "  " + u, u, num])


def gen_tag(rng, tags, exotic=True):
    t = rng.choice(tags)
    if rng.random() < 0.25:
        withunits = [x for x in tags if x.get("_unitvals")]
        if withunits:
            t = rng.choice(withunits)
    long = t["long"]
    parts = long.split("/")
    if parts[-1] == "#" and t.get("_unitvals") and rng.random() < 0.75:
        return parts[-2] + "/" + gen_unit_value(rng, t["_unitvals"])
    if parts[-1] == "#":
        parts = parts[:-1]
        base = parts[-1] + "/" + rng.choice(["3", "abc", "3 ms", "1.5", "#", "x y", "a:b", "12:30", "Red", "é", "3 m-per-s^2"])
        return base
    x = rng.random()
    if x < 0.30:
        return parts[-1]
    if x < 0.38:
        return "/".join(parts)
    if x < 0.46:
        return "/".join(parts[-2:])
    if x < 0.52:
        return parts[-1].upper()
    if x < 0.58:
        return parts[-1].lower()
    if x < 0.62:
        # an extension chain: 0-3 unknown words of length 1..8, then possibly a word that is a tag of the schema
        words = ["".join(rng.choice("abxyQz") for _ in range(rng.choice([1, 1, 2, 2, 3, 5, 8]))) for _ in range(rng.randint(0, 3))]
        if rng.random() < 0.7:
            words.append(rng.choice(tags)["long"].split("/")[-1] if rng.random() < 0.7 else "Red")
            words = [w for w in words if w != "#"] or ["Red"]
        return "/".join([parts[-1]] + words) if words else parts[-1]
    if x < 0.70:
        return parts[-1] + "/" + rng.choice(["Ext-a", "ext", "Red", "x y", "3", "Item", "Blue-x", "é"])
    if x < 0.75 and exotic:
        return rng.choice(["", "", "x"]) + parts[-1] + rng.choice(["/", "//x", " x", "$", "\t"])
    if x < 0.79 and exotic:
        return "/" + parts[-1] + rng.choice(["", "/", "/x"])          # leading slash (class C13-F2)
    if x < 0.88:
        return rng.choice(["Nonsense", "Def/Abc", "Definition/Abc", "Onset", "Offset", "Event-context", "Label/#",
                           "Event-context", "Duration/3 s", "Delay/2 s", "Def-expand/Abc", "Agent-action",
                           "Sensory-event", "Label/é", "3-periodic-discharge-phases", "Label/x\ty"])
    return parts[-1]


def gen_ann(rng, tags, depth, exotic=True):
    items = []
    for _ in range(rng.randint(1, 3)):
        if depth > 0 and rng.random() < 0.35:
            items.append(("G", gen_ann(rng, tags, depth - 1, exotic)))
        else:
            items.append(("T", gen_tag(rng, tags, exotic)))
    if rng.random() < 0.08 and items:
        items.append(items[0])           # a duplicate
    return items


def unprefixed_ok(items):
    """the unprefixed annotation must consist of unprefixed tags (no ':' before the first '/'), no braces"""
    for t in tags_of(items):
        if "{" in t or "}" in t or "," in t or "(" in t or ")" in t:
            return False
        c, s = t.find(":"), t.find("/")
        if c != -1 and (s == -1 or c < s):
            return False
    return True


ODD_TAGS = [":Red", "a:b:Red", "tl:", "t1:Red", "TL:Red", "Label/a:b", "tl:Label/a:b", "tl:Red", "sc:Red", "xx:Red",
            "Red", "tl:/Red", "/Red", "tl:Red/", "Red/", "//", "/", "tl:/", "tl://", ":", "::", "1:Red", "é:Red",
            "tl:Red:x", "tl :Red", "Red /x", "a/b:c", "a:b/c", "tl:Red-color/Blue", "tl:Nonsense", "Item/Red",
            "tl:Item/Red/x", "Label/#", "tl:Label/#", "sc:#", "#", "", "tl:red", "tl:3-x", "3-x", "sc:RED",
            "Red\t/x", "tl: Red", "Red  x", "tl:Red-color//x", "é:Label/é", "tl:Label/~", "[x]", "ß:Red"]


def gen_tagtext(rng, names, prefixes):
    x = rng.random()
    if x < 0.15:
        return rng.choice(ODD_TAGS)
    p = rng.choice(prefixes + ["", "xx:", "t1:", "TL:", ":", "a:b:", "é:"])
    n = rng.choice(names).split("/")
    if n[-1] == "#":
        n[-1] = rng.choice(["3", "abc", "#", "x:y"])
    y = rng.random()
    if y < 0.3:
        body = n[-1]
    elif y < 0.45:
        body = "/".join(n)
    elif y < 0.6:
        body = "/".join(n[-2:])
    elif y < 0.75:
        body = n[-1] + "/" + rng.choice(["ext", "Red", "x/y", "#", "Item/z", ""])
    elif y < 0.85:
        body = rng.choice(["/", "", "x"]) + n[-1] + rng.choice(["", "/", "//a"])
    else:
        body = rng.choice([n[-1].upper(), n[-1].lower(), n[0] + "/" + n[-1], "Zzz/" + n[-1]])
    return p + body


def gen_prefix(rng):
    alpha = "abcXYZéßΩ"
    other = "1_:- /#"
    k = rng.randint(0, 4)
    s = "".join(rng.choice(alpha if rng.random() < 0.8 else other) for _ in range(k))
    return s + rng.choice(["", ":", ":", "::"])


def gen_vlist(rng):
    vs = ["8.3.0", "8.2.0", "score_2.0.0", "score_1.1.0", "testlib_2.0.0", "testlib_3.0.0", "", "x", "a_b", "1.0"]
    ps = ["", "", "tl:", "sc:", "tl:", ":", "a:b:", "TL:"]
    return [rng.choice(ps) + rng.choice(vs) for _ in range(rng.randint(0, 5))]


# ---------------------------------------------------------------- oracle (implementation side)

CAMEL = re.compile(r'([A-Z]+\s*[a-z-]*)+')


def cap_warn(name):
    return name != name.capitalize() and not CAMEL.search(name)


def is_mixed(vlist, allsch):
    """Does the configuration mix character-rule generations?  Decided from the XML headers only (version of the
    standard schema / withStandard of a library, compared with 8.3.0), independently of hed-python."""
    gens = set()
    for v in model_vlist(vlist):
        for x in (v.partition(":")[2] if ":" in v else v).split(","):
            k = x.replace(".", "_")
            if k not in allsch:
                return True
            base = allsch[k]["withStandard"] or allsch[k]["version"]
            gens.add(tuple(int(n) for n in base.split(".")) >= (8, 3, 0))
    return len(gens) > 1


def classify(p, a, g, s, f, gf, sf, mixed=True):
    """A difference between the group verdict g and the alone verdict s: which known class (if any) explains it.
    C13-F1 (one character-rule generation for a mixed group) can only explain a configuration that IS mixed."""
    if not mixed:
        sf = gf          # not a mixed configuration: the F1 branches below cannot apply
    if not FIXED and any(ord(c) > 127 for c in p) and not gf:
        return "C13-F4"
    ref = s
    fid = None
    if gf != sf and f is not None:
        if f == g:
            return "C13-F1"
        ref = f
        fid = "C13-F1" if f != s else None
    bodies = tags_of(a)
    if FIXED:
        return None          # the classes C13-F2, C13-F3 are repaired: any other difference is a violation
    if any(b.strip().startswith("/") for b in bodies):
        return "C13-F2"
    strip = lambda v: [x for x in v if x[0] != "STYLE_WARNING"]
    if strip(g) == strip(ref) and p and any(cap_warn(p + b.split("/")[0]) != cap_warn(b.split("/")[0]) for b in bodies):
        return "C13-F3"
    return None


def ops_index(outs, k):
    return k          # one output per operation


def oracle_equiv(res, vlist, p, key, a, obs, mixed=True):
    g, s, f, gf, sf, gp, sp = obs
    case = {"kind": "equiv", "vlist": vlist, "prefix": p, "key": key, "ann": a,
            "text_group": render(a, p), "text_alone": render(a, "")}
    if g == s:
        if gp != sp:
            # same codes, but an issue names another part of a tag (position counted after the namespace, fragment)
            # class C13-F1: the places coincide once p's schema is given the group's character-rule generation
            fid = "C13-F1" if (mixed and gf != sf and isinstance(f, tuple) and f[0] == "places" and f[1] == gp) else None
            res.report(("prefixed" if p else "unprefixed") + "-equals-alone-places", case, f"group={gp} alone={sp}", fid=fid)
            return False
        return True
    fid = classify(p, a, g, s, f, gf, sf, mixed)
    clause = "prefixed-equals-alone" if p else "unprefixed-equals-alone"
    res.report(clause, case, f"group={g} alone={s}", fid=fid)
    return False


# ---------------------------------------------------------------- model side helpers

def sx_s(s):
    return "(" + " ".join(str(ord(c)) for c in s) + ")"


def un(x):
    return C.uncps(x) if isinstance(x, list) else ""


def file_line(key, sch):
    nodes = []
    for t in sch["tags"]:
        attrs = " ".join("(" + sx_s(k) + " (" + " ".join(sx_s(v) for v in ([] if vs is True else vs)) + "))"
                         for k, vs in sorted(t["attrs"].items()))
        nodes.append("(" + sx_s(t["long"]) + " (" + attrs + "))")
    ed = any(e["name"] == "elementDomain" for e in sch["properties"])
    return ("(file " + sx_s(key) + " " + sx_s(sch["library"]) + " " + sx_s(sch["version"]) + " "
            + sx_s(sch["withStandard"]) + " " + ("1" if sch["unmerged"] else "0") + " " + ("1" if ed else "0")
            + " (" + " ".join(nodes) + "))")


def model_entries(m):
    out = []
    for e in m:
        attrs = tuple(sorted((un(k), ",".join(un(v) for v in vs)) for k, vs in e[3]))
        out.append((un(e[0]), un(e[1]), un(e[2]), attrs))
    return sorted(out)


# ---------------------------------------------------------------- run

def run(tier, seed, res, model_ok=True, proof_ok=True):
    rng = random.Random(seed)
    if not FIXED:
        res.known_ids.update(LEGACY)
    thorough = tier == "thorough"
    wide = (not proof_ok)
    scratch = C.scratch_dir()
    try:
        return _run(rng, thorough, wide, res, model_ok, scratch)
    finally:
        shutil.rmtree(scratch, ignore_errors=True)


def _run(rng, thorough, wide, res, model_ok, scratch):
    cache = os.path.join(scratch, "cache")
    os.makedirs(cache)
    for f in glob.glob(os.path.join(C.REPO, SX.SCHEMA_DIR, "*.xml")):
        shutil.copy(f, cache)
    allsch = SX.load_all()
    for k in ALL_KEYS:
        uv = unit_values(allsch[k])
        for t in allsch[k]["tags"]:
            if t["long"] in uv:
                t["_unitvals"] = uv[t["long"]]
    tagsets = {k: [t for t in allsch[k]["tags"] if fold_ok(t["long"])] for k in ALL_KEYS}
    for _, pm in (CONFIGS_QUICK + CONFIGS_MORE + CONFIGS_SINGLE + CONFIGS_SINGLE_MORE):
        for key in pm.values():
            key = key.lstrip("!")
            if "+" in key and key not in tagsets:
                seen_long = set()
                tagsets[key] = [t for k in key.split("+") for t in tagsets[k]
                                if not (t["long"] in seen_long or seen_long.add(t["long"]))]
    configs = CONFIGS_QUICK + (CONFIGS_MORE if (thorough or wide) else [])
    n_multi = len(configs)
    configs = configs + CONFIGS_SINGLE + (CONFIGS_SINGLE_MORE if (thorough or wide) else [])
    n_ann = 6000 if thorough else (900 if wide else 160)
    stats = {"histogram": {}}
    H = stats["histogram"]
    evaluations = 0
    nontrivial = set()
    disagreements = 0
    samples = []

    # ---------------- tasks for the implementation
    equiv_tasks = []
    corpus = [[("T", "/Red/")], [("T", "3-periodic-discharge-phases")], [("T", "Label/é")], [("T", "Red")],
              [("T", "Red"), ("G", [("T", "Blue"), ("T", "Red")])], [("T", "/Red")], [("T", "red")],
              [("T", "Event-context"), ("G", [("T", "Event-context")])], [("T", "Label/x\ty")]]
    chunk = 800
    for vlist, pmap in configs:
        plist = []
        for p, key in pmap.items():
            if key.startswith("!"):
                continue
            anns = list(corpus)
            while len(anns) < (n_ann if len(pmap) > 1 else max(n_ann // 3, 40)):
                a = gen_ann(rng, tagsets[key], rng.randint(0, 3))
                if unprefixed_ok(a):
                    anns.append(a)
            plist.append((p, key, anns))
        if not plist:
            continue
        if n_ann <= chunk:
            equiv_tasks.append((vlist, plist))
        else:
            for p, key, anns in plist:
                for i in range(0, len(anns), chunk):
                    equiv_tasks.append((vlist, [(p, key, anns[i:i + chunk])]))

    bad_tasks = []
    bad_cases = []
    for vlist, pmap in configs:
        loaded = list(pmap.keys())
        texts = []
        for _ in range(60 if not thorough else 400):
            key = rng.choice(list(pmap.values())).lstrip("!")
            base = rng.choice(tagsets[key])["long"].split("/")
            body = base[-1] if base[-1] != "#" else base[-2] + "/3"
            badp = rng.choice(["xx:", "t1:", "TL:", "1:", ":", "a:b:", "zz:", "t-l:", "é1:", "tl:", "sc:", "score:", "tl:",
                               "sc:", "xx:", "t1:", ""] + [q.upper() for q in loaded if q and q.upper() not in loaded])
            if badp in loaded:
                continue
            other = rng.choice(["", "", rng.choice([q for q in loaded]) + "Red, "])
            texts.append((badp, other + badp + body))
        bad_tasks.append((vlist, [t for _, t in texts]))
        bad_cases.append((vlist, texts))

    names83 = [t["long"] for t in tagsets["8_3_0"]]
    piece_texts = list(ODD_TAGS) + [gen_tagtext(rng, names83, ["tl:", "sc:"]) for _ in range(4000 if thorough else 1200)]
    piece_texts += ["".join(rng.choice("aR/: \t#1é~[") for _ in range(rng.randint(0, 7))) for _ in range(3000 if thorough else 800)]
    prefixes = ["", "tl", "tl:", "t1", "t1:", ":", "::", "sc::", "sc:::", ":sc", "é", "é:", "ß:", "a b", "TL:", "x:y", "1", "-"] + \
               [gen_prefix(rng) for _ in range(1500 if thorough else 400)]
    vlists = [[], [""], ["tl:"], ["8.3.0"], ["tl:8.3.0", "tl:8.3.0"], ["a", "a"], ["a", "tl:a"], ["tl:a", "b", "tl:c"],
              [":a", "a"], ["a:b:c", "a:b:c"], ["a:b", "a:c", "a:b"]] + [gen_vlist(rng) for _ in range(1500 if thorough else 400)]

    # loading: every ordered pair of bundled versions under one prefix, the same under two prefixes, some triples
    if thorough or wide:
        loads = [[vkey(a), vkey(b)] for a in ALL_KEYS for b in ALL_KEYS]
        loads += [["tl:" + vkey(a), "tl:" + vkey(b)] for a in ALL_KEYS[2:] for b in ALL_KEYS[2:]]
    else:
        modern = ["8_3_0", "score_2_0_0", "testlib_2_0_0", "testlib_2_1_0"]
        loads = [[vkey(a), vkey(b)] for a in modern for b in modern]
        loads += [["score_1.1.0", "testlib_2.0.0"], ["testlib_2.1.0", "score_1.1.0"], ["score_1.1.0", "score_2.0.0"]]
        loads += [["8.2.0", "testlib_3.0.0"], ["testlib_3.0.0", "testlib_2.0.0"], ["testlib_3.0.0", "score_1.1.0"]]
        loads += [[vkey(a), vkey(b)] for a, b in [("8_0_0", "8_1_0"), ("score_1_0_0", "testlib_1_0_2"),
                                                   ("testlib_1_0_2", "testlib_2_0_0"), ("8_1_0", "score_1_0_0")]]
        loads += [["tl:" + vkey(a), "tl:" + vkey(b)] for a, b in [("testlib_2_0_0", "testlib_2_0_0"),
                                                                  ("score_1_1_0", "testlib_2_0_0"),
                                                                  ("testlib_2_0_0", "testlib_2_1_0"),
                                                                  ("8_3_0", "score_2_0_0")]]
    loads += [[vkey(a), "tl:" + vkey(a)] for a in (ALL_KEYS if (thorough or wide) else ["testlib_2_0_0", "8_3_0", "score_2_0_0"])]
    loads += [["score_1.1.0", "testlib_2.0.0", "testlib_2.1.0"], ["testlib_2.0.0", "score_1.1.0", "testlib_2.0.0"],
              ["t1:testlib_3.0.0"], ["tl:testlib_3.0.0"], ["TL:testlib_3.0.0", "tl:score_2.0.0"], [":testlib_3.0.0"],
              ["é:testlib_3.0.0"], [""], ["tl:"], ["8.3"], ["tl:testlib_x"], ["testlib_2.0.0,testlib_2.0.0"],
              ["tl:testlib_2.0.0", "tl:score_1.1.0,testlib_2.0.0"], ["8.3.0", "8.3.0"], ["8.3.0", "tl:8.3.0", "sc:8.3.0"],
              ["sc:score_1.1.0", "tl:testlib_2.0.0", "sc:testlib_2.1.0", "8.2.0"], ["t-l:8.3.0"],
              ["8.2.0", "é:testlib_2.0.0"], ["ß:8.3.0"], ["Ab:8.3.0", "ab:8.2.0"]]
    # two versions of one library / the same library twice in the comma form, under one prefix: clashing names
    loads += [["testlib_2.1.0", "testlib_3.0.0"], ["tl:testlib_2.1.0", "tl:testlib_3.0.0"], ["score_1.1.0,score_1.1.0"],
              ["x:testlib_2.0.0,testlib_2.0.0"], ["x:testlib_3.0.0,testlib_2.1.0"]]
    loads += [model_vlist(v) for v, _ in configs]
    seen = set()
    loads = [l for l in loads if not (tuple(l) in seen or seen.add(tuple(l)))]

    res_tasks = []
    for vlist, pmap in configs:
        names = [t["long"] for k in pmap.values() for t in tagsets[k.lstrip("!")]]
        texts = list(ODD_TAGS) + [gen_tagtext(rng, names, list(pmap.keys())) for _ in range(3000 if thorough else 700)]
        texts = [t for t in texts if fold_ok(t)]
        res_tasks.append((vlist, texts))
    grp_tasks = []
    for vlist, pmap in configs:
        ps = list(pmap.keys())
        lists = []
        for _ in range(200 if thorough else 60):
            l = []
            for _ in range(rng.randint(0, 4)):
                l.append(rng.choice(ps + ["xx:"]) + rng.choice(["Event-context", "Event-context", "Red", "event-context",
                                                                 "Property/Organizational-property/Event-context",
                                                                 "Organizational-property/Event-context/x", "Nonsense"]))
            lists.append(l)
        grp_tasks.append((vlist, lists))

    partner_tasks = []
    for b, l in PAIRS:
        std_tags = [(t["long"], t["attrs"]) for t in allsch[b]["tags"]]
        lib_tags = [(t["long"], t["attrs"]) for t in allsch[l]["tags"] if "inLibrary" in t["attrs"]]
        partner_tasks.append((b, l, std_tags, lib_tags))

    # histories: (a) objects built under A judged under B; (b) one schema object re-prefixed between validations
    cross_tasks = []
    for (vlA, pmA), Bs in CROSS + (CROSS_MORE if (thorough or wide) else []):
        texts = ["sc:Recording/a b, sc:Truck", "sc:Chewing-artifact", "Instrument-sound/Oboe-sound", "Oboe-sound/x"] + \
                [gen_cross_text(rng, pmA, tagsets) for _ in range(1500 if thorough else 150)]
        for vlB in Bs:
            cross_tasks.append((vlA, vlB, texts))
    reid_tasks = []
    for vlA, vlB, texts in cross_tasks:
        tt = sorted({x.strip() for t in texts for x in re.split(r"[(),]", t) if x.strip() and fold_ok(x) and x.isascii()})
        reid_tasks.append((vlA, vlB, tt[:400] if not thorough else tt[:3000]))
    req_path = make_required_schema(cache, scratch)
    rep_tasks = []
    for lk, sk in REPREFIX:
        pth = req_path if lk == "REQ" else os.path.join(cache, fname(lk))
        fixed_ops = [("validate", UNIQ_ANNS[0], False), ("prefix", "sc"), ("validate", UNIQ_ANNS[0], False),
                     ("validate", UNIQ_ANNS[0], True), ("prefix", ""), ("validate", UNIQ_ANNS[1], False)]
        rep_tasks.append((pth, sk, fixed_ops))
        rep_tasks.append((pth, sk, [("prefix", "sc:")] + fixed_ops))
        for _ in range(12 if thorough else 2):
            rep_tasks.append((pth, sk, gen_reprefix_ops(rng, rng.randint(4, 9))))

    ent_want = set(range(len(configs))) if (thorough or wide) else {0, 1}
    cfg_tasks = [(vl, bt[1], rt[1], gt[1], ci in ent_want)
                 for ci, ((vl, _), bt, rt, gt) in enumerate(zip(configs, bad_tasks, res_tasks, grp_tasks))]
    ent_extra = [["score_1.1.0", "testlib_2.0.0"]]
    unm_pairs = PAIRS if (thorough or wide) else PAIRS[:2]

    # the extracted model runs in its own process while the implementation is exercised
    from hed.errors.exceptions import HedExceptions
    import threading
    drv = {}
    if model_ok:
        exe = C.build_driver("c13")
        main_lines = ["(clear)"] + [file_line(vkey(k), allsch[k]) for k in ALL_KEYS]
        idx = {}
        for i, vl in enumerate(loads):
            idx[("load", i)] = len(main_lines)
            main_lines.append("(load %d L" % FIXED + str(i) + " (" + " ".join(sx_s(v) for v in vl) + "))")
        ent_cfgs = [v for v, _ in configs] + ent_extra
        n_schemas = [len(pm) for _, pm in configs] + [1]
        for ci, vl in enumerate(ent_cfgs):
            main_lines.append("(load %d C" % FIXED + str(ci) + " (" + " ".join(sx_s(v) for v in model_vlist(vl)) + "))")
            idx[("flag", ci)] = len(main_lines)
            main_lines += ["(flag C%d)" % ci, "(twa C%d required)" % ci, "(twa C%d unique)" % ci]
            if ci in ent_want or ci >= len(configs):
                idx[("ent", ci)] = len(main_lines)
                main_lines += ["(entries C%d %d)" % (ci, j) for j in range(n_schemas[ci])]
        for ci, (vl, texts) in enumerate(res_tasks):
            idx[("res", ci)] = len(main_lines)
            for t in texts:
                main_lines += ["(resolve C%d %s)" % (ci, sx_s(t)), "(cap %d C%d %s)" % (FIXED, ci, sx_s(t)),
                          "(getent C%d %s %s)" % (ci, sx_s(t), sx_s(re.match(r"^[^:/]*:", t).group(0) if re.match(r"^[^:/]*:", t) else "")),
                          "(span C%d %s)" % (ci, sx_s(t))]
        for ci, (vl, lists) in enumerate(grp_tasks):
            idx[("grp", ci)] = len(main_lines)
            main_lines += ["(grp C%d (%s))" % (ci, " ".join(sx_s(t) for t in l)) for l in lists]

        for ri, (vlA, vlB, tt) in enumerate(reid_tasks):
            main_lines.append("(load %d XA%d (%s))" % (FIXED, ri, " ".join(sx_s(v) for v in model_vlist(vlA))))
            main_lines.append("(load %d XB%d (%s))" % (FIXED, ri, " ".join(sx_s(v) for v in model_vlist(vlB))))
            idx[("reid", ri)] = len(main_lines)
            main_lines += ["(reid XA%d XB%d %s)" % (ri, ri, sx_s(t)) for t in tt]

        def run_model():
            try:
                drv["out"] = C.run_driver(exe, main_lines, shards=1, timeout=3000)
            except Exception as e:  # noqa
                drv["err"] = repr(e)
        drv_thread = threading.Thread(target=run_model)
        drv_thread.start()
    with Pool(int(C.JOBS), initializer=_init, initargs=(cache,)) as pool:
        r_equiv = pool.map_async(g_equiv, equiv_tasks, chunksize=1)
        r_cfg = pool.map_async(g_config, cfg_tasks, chunksize=1)
        r_part = pool.map_async(g_partner, partner_tasks, chunksize=1)
        r_unm = pool.map_async(g_unmerged, [l for _, l in unm_pairs], chunksize=1)
        r_cross = pool.map_async(g_cross, cross_tasks, chunksize=1)
        r_rep = pool.map_async(g_reprefix, rep_tasks, chunksize=1)
        r_reid = pool.map_async(g_reid, reid_tasks, chunksize=1)
        r_load = pool.map_async(t_load, loads, chunksize=2)
        r_ent = pool.map_async(g_entries, ent_extra, chunksize=1)
        r_pieces = pool.map_async(t_pieces, [piece_texts[i::16] for i in range(16)], chunksize=1)
        r_setp = pool.map_async(t_setprefix, [prefixes], chunksize=1)
        r_pvl = pool.map_async(t_pvl, [vlists], chunksize=1)
        equiv = r_equiv.get()
        cfgr = r_cfg.get()
        pieces = r_pieces.get()
        setp = r_setp.get()[0]
        pvl = r_pvl.get()[0]
        loadr = r_load.get()
        partr = r_part.get()
        unmr = r_unm.get()
        crossr = r_cross.get()
        repr_ = r_rep.get()
        reidr = r_reid.get()
        entx = r_ent.get()

    def failed(x):
        return isinstance(x, dict) and "fail" in x
    for (vl, _), c in list(zip(configs, cfgr)) + list(zip([(v, None) for v in ent_extra], entx)):
        if failed(c):
            res.report("configuration-loads", {"kind": "load", "vlist": vl}, c["fail"])
    for task, o in zip(equiv_tasks, equiv):
        if failed(o):
            res.report("configuration-loads", {"kind": "load", "vlist": task[0], "alone": [k for _, k, _ in task[1]]}, o["fail"])
    pick = lambda c, i: None if failed(c) else c[i]
    bad = [pick(c, 0) for c in cfgr]
    resr = [pick(c, 1) for c in cfgr]
    grpr = [pick(c, 2) for c in cfgr]
    twar = [pick(c, 3) for c in cfgr]
    entr = [pick(c, 4) for c in cfgr] + [None if failed(x) else x for x in entx]

    # ---------------- implementation-side oracle
    # clauses 1/2: prefixed == alone, unprefixed == alone
    n_eq = 0
    for task, outs_all in zip(equiv_tasks, equiv):
      if failed(outs_all):
          continue
      vlist, plist = task
      for (p, key, anns), outs in zip(plist, outs_all):
        for a, obs in zip(anns, outs):
            n_eq += 1
            evaluations += 1
            ok = oracle_equiv(res, vlist, p, key, a, obs, is_mixed(vlist, allsch))
            if len(tags_of(a)) > 1 or obs[0]:
                nontrivial.add((tuple(vlist), p, render(a, "")))
            hk = "equiv:" + ("prefixed" if p else "unprefixed")
            H[hk] = H.get(hk, 0) + 1
            hk = "equiv:" + ("valid" if not any(sv == 1 for _, sv in obs[1]) else "invalid")
            H[hk] = H.get(hk, 0) + 1
            if any(re.search(r"/-?[0-9][0-9.e]* *[A-Za-z$]", t) or re.search(r"/[$A-Za-z]+ ?[0-9]", t) for t in tags_of(a)):
                H["equiv:value-with-unit"] = H.get("equiv:value-with-unit", 0) + 1
            hk = "equiv:tags=" + str(min(len(tags_of(a)), 6))
            H[hk] = H.get(hk, 0) + 1
            if not ok:
                H["equiv:known-or-violation"] = H.get("equiv:known-or-violation", 0) + 1
    samples.append(render(equiv_tasks[0][1][-1][2][-1], equiv_tasks[0][1][-1][0]))
    samples.append(render(equiv_tasks[-1][1][0][2][-1], equiv_tasks[-1][1][0][0]))
    # clause 3: unknown / non-alphabetic prefix is an error (TAG_NAMESPACE_PREFIX_INVALID unless cut earlier)
    for (vlist, texts), outs in zip(bad_cases, bad):
        for (badp, text), g in zip(texts, outs or []):
            evaluations += 1
            H["bad-prefix"] = H.get("bad-prefix", 0) + 1
            has_err = any(sv == 1 for _, sv in g) and not any(c.startswith("EXN") for c, _ in g)
            early = any(c in ("CHARACTER_INVALID", "TAG_INVALID", "COMMA_MISSING") for c, _ in g)
            if not has_err or (("TAG_NAMESPACE_PREFIX_INVALID", 1) not in g and not early):
                res.report("bad-prefix-is-error", {"kind": "badprefix", "vlist": vlist, "text": text, "prefix": badp},
                           f"verdict={g}")
    samples.append(bad_cases[0][1][0][1])

    # histories: the verdict is a function of the CURRENT configuration and the text, whatever happened before
    for (vlA, vlB, texts), outs in zip(cross_tasks, crossr):
        if failed(outs):
            res.report("configuration-loads", {"kind": "load", "vlist": vlA, "other": vlB}, outs["fail"])
            continue
        for t, (cross, fresh, pre, emul, f6able) in zip(texts, outs):
            evaluations += 1
            H["history:cross"] = H.get("history:cross", 0) + 1
            if cross != fresh:
                fid = None
                if vlA != vlB and not FIXED5:
                    if pre == fresh:
                        fid = "C13-F5"
                    elif emul == pre:
                        fid = "C13-F6"
                elif vlA != vlB and f6able and emul == cross:
                    fid = "C13-F6"      # since 02f8597: the verdict is exactly that of the documented single re-identification
                res.report("built-under-A-judged-under-B-equals-fresh",
                           {"kind": "cross", "built_under": vlA, "judged_under": vlB, "text": t},
                           f"A-built={cross} fresh={fresh} A-built-after-reidentification={pre} documented-reidentification={emul}", fid=fid)
            if cross:
                nontrivial.add((tuple(vlA), tuple(vlB), t))
    for (pth, sk, ops), outs in zip(rep_tasks, repr_):
        if failed(outs):
            res.report("configuration-loads", {"kind": "reprefix", "file": os.path.basename(pth), "ops": ops}, outs["fail"])
            continue
        for k, o in enumerate(outs):
            if o[0] != "validate":
                continue
            evaluations += 1
            H["history:reprefix"] = H.get("history:reprefix", 0) + 1
            if o[3] != o[4]:
                res.report("reprefixed-schema-equals-freshly-loaded",
                           {"kind": "reprefix", "file": os.path.basename(pth), "std": sk, "ops": ops[:ops_index(outs, k) + 1]},
                           f"step {k} namespace={o[1]!r} text={o[2]!r}: re-prefixed object={o[3]} freshly loaded={o[4]}")
    samples.append(cross_tasks[0][2][-1])

    # clause 3 at the loader: a prefix that is not alphabetic is refused.  Independent rule: after removing ONE trailing
    # colon the prefix must be non-empty ASCII letters (the empty prefix means "no namespace"); an accepted prefix is
    # stored as letters + ':'.
    for pfx, o in zip(prefixes, setp):
        evaluations += 1
        name = pfx[:-1] if pfx.endswith(":") else pfx
        good = pfx == "" or (name != "" and name.isascii() and name.isalpha()) or (not FIXED and name != "" and name.isalpha())
        case = {"kind": "setprefix", "prefix": pfx}
        if o[0] == "ok" and not good:
            res.report("non-alphabetic-prefix-refused", case, f"set_schema_prefix({pfx!r}) accepted, namespace {o[1]!r}")
        elif o[0] == "ok" and o[1] != (name + ":" if pfx else ""):
            res.report("non-alphabetic-prefix-refused", case, f"set_schema_prefix({pfx!r}) stored {o[1]!r}")
        elif o[0] != "ok" and good:
            res.report("alphabetic-prefix-accepted", case, f"set_schema_prefix({pfx!r}) raised {o[1:]}")
        elif o[0] != "ok" and o[1] != "HedFileError":
            res.report("non-alphabetic-prefix-refused", case, f"set_schema_prefix({pfx!r}) raised {o[1]} instead of HedFileError")

    # clause 4: partnered library contains every standard tag unchanged, plus its own (all tags; testing)
    for (b, l, _, _), pr in zip(partner_tasks, partr):
        if failed(pr):
            res.report("partnered-contains-standard", {"kind": "load", "vlist": [vkey(l)], "std": b}, pr["fail"])
            continue
        n, badl = pr
        evaluations += n
        H["partner-tags"] = H.get("partner-tags", 0) + n
        for form, why in badl:
            res.report("partnered-contains-standard", {"kind": "partner", "std": b, "lib": l, "tag": form}, why)
    for (b, l), u in zip(unm_pairs, unmr):
        evaluations += 1
        if failed(u) or "exn" in u or not u["same"] or u["dups"]:
            res.report("partner-merge-equals-merged-file", {"kind": "unmerged", "lib": l},
                       u.get("fail") or u.get("exn", "entries of the unmerged load differ from the merged file"))

    # clause 5: refusals (expectation computed from the XML files, independently of hed-python)
    libtags = {k: {t["short"].casefold() for t in allsch[k]["tags"] if "inLibrary" in t["attrs"] and t["short"] != "#"}
               for k in ALL_KEYS}
    alltags = {k: {t["short"].casefold() for t in allsch[k]["tags"] if t["short"] != "#"} for k in ALL_KEYS}
    bykey = {vkey(k): k for k in ALL_KEYS}

    def expect(vl):
        groups = {}
        for v in vl:
            ns, _, ver = v.partition(":") if ":" in v else ("", "", v)
            groups.setdefault(ns, []).extend(ver.split(","))
        for ns, vs in groups.items():
            if ns and not (ns.isalpha() and (ns.isascii() or not FIXED)):
                return "refuse"
            if any(x not in bykey for x in vs):
                return None
            if len(set(vs)) != len(vs):
                return "refuse"
            for x, y in itertools.combinations(vs, 2):
                kx, ky = bykey[x], bykey[y]
                if libtags[kx] & alltags[ky] or libtags[ky] & alltags[kx]:
                    return "refuse"
                wx, wy = allsch[kx]["withStandard"], allsch[ky]["withStandard"]
                if not wx or not wy or wx != wy:
                    return "refuse" if (alltags[kx] & alltags[ky]) else None
        return "accept"
    for vl, r in zip(loads, loadr):
        evaluations += 1
        H["load:" + r[0]] = H.get("load:" + r[0], 0) + 1
        e = expect(vl)
        case = {"kind": "load", "vlist": vl}
        if r[0] == "err" and r[2] not in ("HedFileError",):
            if vl:      # load_schema_version([]) raising TypeError is outside the statement
                res.report("load-refusal-is-HedFileError", case, f"raised {r[2]}")
        elif e == "refuse" and r[0] != "err":
            res.report("clash-or-duplicate-refused", case, f"loaded: {r[1]}")
        elif e == "accept" and r[0] != "ok":
            res.report("distinct-schemas-load", case, f"refused: {r[1]}")
        elif e == "accept" and any(x[6] for x in r[1]):
            res.report("distinct-schemas-load", case, "loaded with duplicates")
    samples.append(loads[5])

    # ---------------- correspondence with the extracted model
    corr = 0
    if model_ok:
        def corr_violation(what, case, detail):
            nonlocal disagreements
            disagreements += 1
            res.violation("correspondence", dict(case, what=what), detail, no_input=True)

        lines = []
        for t in piece_texts:
            lines += ["(ns " + sx_s(t) + ")", "(pfx " + sx_s(t) + ")", "(fmt %d " % FIXED + sx_s(t) + ")",
                      "(chars 1 " + sx_s(t) + ")", "(chars 0 " + sx_s(t) + ")"]
        out = C.run_driver(exe, lines)
        pieces_flat = [None] * len(piece_texts)
        for i in range(16):
            for j, o in enumerate(pieces[i]):
                pieces_flat[i + 16 * j] = o
        for i, t in enumerate(piece_texts):
            o = pieces_flat[i]
            m = out[5 * i:5 * i + 5]
            corr += 1
            if "exn" in o:
                corr_violation("pieces", {"text": t}, o["exn"])
                continue
            mine = {"ns": un(m[0]), "pfx": int(m[1]), "fmt": int(m[2]),
                    "c1": [KIND2CODE.get(x, x) for x in m[3]], "c0": [KIND2CODE.get(x, x) for x in m[4]]}
            if "\n" in t or "\r" in t:
                mine["fmt"] = o["fmt"]
            for k in ("ns", "pfx", "fmt", "c1", "c0"):
                if mine[k] != o[k] or o["ns"] != o["ns_attr"]:
                    corr_violation("pieces:" + k, {"text": t, "codepoints": C.cps(t)}, f"impl={o} model={mine}")
                    break
        out = C.run_driver(exe, ["(setp %d " % FIXED + sx_s(p) + ")" for p in prefixes])
        for p, o, m in zip(prefixes, setp, out):
            corr += 1
            mm = ["ok", un(m[1])] if m[0] == "ok" else ["exn", m[1]]
            if mm != o[:2]:
                corr_violation("set_schema_prefix", {"prefix": p}, f"impl={o} model={mm}")
        out = C.run_driver(exe, ["(pvl (" + " ".join(sx_s(v) for v in vl) + "))" for vl in vlists])
        for vl, o, m in zip(vlists, pvl, out):
            corr += 1
            if m[0] == "ok":
                mm = ["ok", [[un(k), un(v)] for k, v in m[1]]]
            else:
                mm = ["err", getattr(HedExceptions, m[1], m[1])]
            if mm != o:
                corr_violation("parse_version_list", {"vlist": vl}, f"impl={o} model={mm}")

        # stateful part (started before the pool): loads, configurations, resolution, group rules
        drv_thread.join()
        if "out" not in drv:
            raise RuntimeError("model driver failed: " + drv.get("err", "?"))
        out = drv["out"]
        # partner merge: unmerged XML written by the implementation, read independently, merged by the model
        lines2 = ["(clear)"] + [file_line(vkey(k), allsch[k]) for k in ("8_2_0", "8_3_0")]
        idx2 = {}
        for pi, ((b, l), u) in enumerate(zip(unm_pairs, unmr)):
            if "xml" not in u:
                continue
            pth = os.path.join(scratch, f"unmerged_{l}.xml")
            with open(pth, "w", encoding="utf8") as fh:
                fh.write(u["xml"])
            usch = SX.load_file(pth)
            ukey = "unm" + vkey(l)
            lines2.append(file_line(ukey, usch))
            idx2[pi] = len(lines2)
            lines2 += ["(load %d U%d (%s))" % (FIXED, pi, sx_s(ukey)), "(entries U%d 0)" % pi]
        out2 = C.run_driver(exe, lines2, shards=1, timeout=3000)

        for i, (vl, o) in enumerate(zip(loads, loadr)):
            corr += 1
            m = out[idx[("load", i)]]
            if m[0] == "ok":
                mm = ["ok", [[un(x[0]), un(x[1]), un(x[2]), un(x[3]), x[4] == "1", int(x[5]), int(x[6]) > 0] for x in m[1]]]
                oo = o[:2]
            else:
                code = getattr(HedExceptions, m[1], m[1])
                mm = ["err", code if m[2] == "HedFileError" else "", m[2]]
                oo = o
            if mm != oo:
                corr_violation("load_schema_version", {"vlist": vl}, f"impl={o[:2]} model={mm}")
        for ci, vl in enumerate(ent_cfgs):
            corr += 1
            if ci < len(configs) and twar[ci] is not None:
                m = out[idx[("flag", ci)]:idx[("flag", ci)] + 3]
                mm = [sorted(un(x) for x in m[1]), sorted(un(x) for x in m[2]), m[0] == "1"]
                if mm != twar[ci]:
                    corr_violation("tags_with_attribute/schema_83_props", {"vlist": vl}, f"impl={twar[ci]} model={mm}")
            if entr[ci] is None or ("ent", ci) not in idx:
                continue
            for j, ie in enumerate(entr[ci]):
                me = model_entries(out[idx[("ent", ci)] + j])
                ie = [tuple(x) for x in ie]
                if me != [tuple((a, b, c, tuple(tuple(z) for z in d))) for a, b, c, d in ie]:
                    diff = [x for x in me if x not in set(ie)][:2] + [x for x in ie if x not in set(me)][:2]
                    corr_violation("schema entries", {"vlist": vl, "schema": j}, f"first differences: {diff}")
        for ci, ((vl, texts), outs) in enumerate(zip(res_tasks, resr)):
            base = idx[("res", ci)]
            for k, (t, o) in enumerate(zip(texts, outs or [])):
                corr += 1
                evaluations += 1
                m, mc, mg, ms = out[base + 4 * k], out[base + 4 * k + 1], out[base + 4 * k + 2], out[base + 4 * k + 3]
                if "exn" in o:
                    corr_violation("resolve", {"vlist": vl, "text": t}, o["exn"])
                    continue
                mm = {"ns": un(m[0]), "found": m[1] == "1", "name": un(m[2]), "long": un(m[3]),
                      "rem": None if m[4] == "none" else un(m[4][0]),
                      "codes": sorted(KIND2CODE.get(x, x) for x in m[5]), "long_tag": un(m[6]), "obt": un(m[7]),
                      "cap": int(mc), "getent": un(mg[1]) if mg[0] == "1" else None,
                      "span": None if ms == "none" else [int(ms[0]), int(ms[1])]}
                oo = {k2: o[k2] for k2 in mm}
                if not t.isascii():
                    mm["cap"] = oo["cap"]
                if mm != oo or not o["same"]:
                    corr_violation("resolve", {"vlist": vl, "text": t, "codepoints": C.cps(t)}, f"impl={o} model={mm}")
                if mm["found"]:
                    nontrivial.add((tuple(vl), "resolve", t))
        for ci, ((vl, lists), outs) in enumerate(zip(grp_tasks, grpr)):
            base = idx[("grp", ci)]
            for k, (l, o) in enumerate(zip(lists, outs or [])):
                corr += 1
                mm = sorted(KIND2CODE.get(x, x) for x in out[base + k])
                if mm != o:
                    corr_violation("required/unique", {"vlist": vl, "tags": l}, f"impl={o} model={mm}")
        for pi, ((b, l), u) in enumerate(zip(unm_pairs, unmr)):
            if pi not in idx2:
                continue
            corr += 1
            m = out2[idx2[pi]]
            me = model_entries(out2[idx2[pi] + 1]) if m[0] == "ok" else m
            ie = [(a, b_, c, tuple(tuple(z) for z in d)) for a, b_, c, d in u["entries"]]
            if me != ie:
                diff = ([x for x in me if x not in set(ie)][:2] + [x for x in ie if x not in set(me)][:2]) if m[0] == "ok" else m
                corr_violation("partner merge (unmerged file)", {"lib": l}, f"first differences: {diff}")
        for ri, ((vlA, vlB, tt), outs) in enumerate(zip(reid_tasks, reidr)):
            if failed(outs):
                continue
            base = idx[("reid", ri)]
            for k, (t, o) in enumerate(zip(tt, outs)):
                corr += 1
                m = out[base + k]
                if isinstance(o, dict):
                    corr_violation("re-identification", {"built_under": vlA, "judged_under": vlB, "text": t}, o["exn"])
                    continue
                mm = [un(m[0][1]) if m[0][0] == "1" else None, un(m[1]), sorted(KIND2CODE.get(x, x) for x in m[2]), un(m[3])]
                if mm != o:
                    corr_violation("re-identification", {"built_under": vlA, "judged_under": vlB, "text": t},
                                   f"impl={o} model={mm}")
        H["corr:reidentify"] = sum(len(t[2]) for t in reid_tasks)
        H["corr:pieces"] = len(piece_texts)
        H["corr:resolve"] = sum(len(t) for _, t in res_tasks)
        H["corr:loads"] = len(loads)
        H["corr:prefixes"] = len(prefixes)
        H["corr:version-lists"] = len(vlists)

    stats.update({
        "evaluations": evaluations + corr,
        "distinct_nontrivial": len(nontrivial),
        "rule": "equivalence cases: (configuration, prefix, annotation) with more than one tag or a non-empty verdict; "
                "resolution cases: (configuration, tag text) that resolve to a schema entry",
        "samples": samples[:6],
        "exhaustive": False,
        "disagreements_checked": disagreements,
        "correspondence_cases": corr,
        "configurations": [v for v, _ in configs],
        "fixed_semantics": bool(FIXED),
        "equivalence_cases": n_eq,
    })
    return stats


# ---------------------------------------------------------------- replay

def replay(payload):
    case = payload.get("case") or {}
    kind = case.get("kind")
    if kind is None:
        print("no concrete input in replay:", str(payload.get("detail", ""))[:800])
        return 1
    scratch = C.scratch_dir()
    try:
        cache = os.path.join(scratch, "cache")
        os.makedirs(cache)
        for f in glob.glob(os.path.join(C.REPO, SX.SCHEMA_DIR, "*.xml")):
            shutil.copy(f, cache)
        _init(cache)
        res = C.Result(PROP)
        res.known_ids = {}
        if kind == "equiv":
            a = [tuple(x) for x in case["ann"]]

            def fix(items):
                return [(k, fix(x)) if k == "G" else (k, x) for k, x in items]
            a = fix(case["ann"])
            obs = t_equiv((case["vlist"], [(case["prefix"], case["key"], [a])]))[0][0]
            print("group  :", render(a, case["prefix"]), "->", obs[0])
            print("alone  :", render(a, ""), "->", obs[1])
            if obs[0] != obs[1]:
                print("FAILS: verdicts differ; known class:",
                      classify(case["prefix"], a, *obs[:5], is_mixed(case["vlist"], SX.load_all())))
                return 1
            if obs[5] != obs[6]:
                print("FAILS: same codes, but the issues name different parts of the tags:\n  group:", obs[5], "\n  alone:", obs[6])
                return 1
            return 0
        if kind == "setprefix":
            o = t_setprefix([case["prefix"]])[0]
            pfx = case["prefix"]
            name = pfx[:-1] if pfx.endswith(":") else pfx
            good = pfx == "" or (name != "" and name.isascii() and name.isalpha())
            print("set_schema_prefix(%r) ->" % pfx, o, "| must be accepted:", good)
            bad = (o[0] == "ok") != good or (o[0] == "ok" and o[1] != (name + ":" if pfx else ""))
            print("FAILS" if bad else "ok")
            return 1 if bad else 0
        if kind == "badprefix":
            g = t_badprefix((case["vlist"], [case["text"]]))[0]
            print("verdict:", g)
            bad = not any(sv == 1 for _, sv in g)
            print("FAILS" if bad else "ok")
            return 1 if bad else 0
        if kind == "cross":
            cross, fresh, pre, emul, f6able = t_cross((case["built_under"], case["judged_under"], [case["text"]]))[0]
            print("built under", case["built_under"], "judged under", case["judged_under"], ":", case["text"])
            print("  object built under A :", cross)
            print("  freshly built object :", fresh)
            if cross != fresh:
                print("FAILS: verdicts differ (after re-identification first: %s; documented re-identification: %s; "
                      "C13-F6 cause present: %s)" % (pre, emul, f6able))
                return 1
            return 0
        if kind == "reprefix":
            pth = os.path.join(cache, case["file"])
            if not os.path.exists(pth):
                pth = make_required_schema(cache, scratch)

            def fix(items):
                return [(k, fix(x)) if k == "G" else (k, x) for k, x in items]
            ops = [("prefix", o[1]) if o[0] == "prefix" else ("validate", fix(o[1]), o[2]) for o in case["ops"]]
            outs = t_reprefix((pth, case["std"], ops))
            rc = 0
            for o in outs:
                print(o)
                if o[0] == "validate" and o[3] != o[4]:
                    print("FAILS: re-prefixed object and freshly loaded schema disagree")
                    rc = 1
            return rc
        if kind == "load" and case["vlist"] and case["vlist"][0].startswith("~"):
            try:
                g = w_group(case["vlist"])
                print("built by route", case["vlist"], "->", getattr(g, "valid_prefixes", None))
                return 0
            except Exception as e:  # noqa
                print("FAILS: building", case["vlist"], "step by step raised", type(e).__name__, getattr(e, "message", e))
                return 1
        if kind == "load":
            r = t_load(case["vlist"])
            print("load_schema_version", case["vlist"], "->", r[:2])
            return 1
        print("replay of", kind, "not supported; case:", case)
        return 1
    finally:
        shutil.rmtree(scratch, ignore_errors=True)


def translate():
    c13_gen.translate()
