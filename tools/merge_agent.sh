#!/bin/sh
# merge_agent.sh Cxx : copy the files a builder added in /root/work/Cxx/verif into /verif
P=$1; C=/root/work/$P/verif
cd $C || exit 1
git add -A >/dev/null 2>&1; git commit -q -m "final state" >/dev/null 2>&1
BASE=$(git rev-list --max-parents=0 HEAD | tail -1)
# base = newest commit that also exists in /verif
for c in $(git rev-list HEAD); do if git -C /verif cat-file -e $c 2>/dev/null; then BASE=$c; break; fi; done
echo "base=$BASE"
git diff --name-status $BASE HEAD | while read st f; do
  case "$f" in
    harness/common.py|harness/main.py|harness/manifest.py|harness/setup.py|coq/Base/Res.v|coq/Base/Str.v|ocaml/common.ml|check|setup.sh|MANIFEST.json|DESIGN.md|BUILDER_BRIEF.md|.gitignore|harness/c02.py|coq/Model/Parse.v|coq/Proofs/ParseProofs.v|coq/Props/C02.v)
      echo "SHARED-CHANGED $st $f";;
    harness/registry.py|known_findings.json) echo "MERGE-MANUALLY $st $f";;
    evidence/*|replays/*) ;;
    *) if [ "$st" = "D" ]; then echo "DELETED $f"; else mkdir -p /verif/$(dirname $f); cp $f /verif/$f; echo "copied $st $f"; fi;;
  esac
done
echo "--- registry diff"; git diff $BASE HEAD -- harness/registry.py | grep '^[+-]' | grep -v '^+++\|^---'
echo "--- known_findings"; cat known_findings.json
