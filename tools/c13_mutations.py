import os, shutil, subprocess, sys, re
BASE="/root/work/C13/repo"   # a private copy of /repo HEAD (fix-F2..F4 are in it)
REVERTS = {"R2_revert_fix_F2": "/root/work/C13/fix-F2.diff", "R3_revert_fix_F3": "/root/work/C13/fix-F3.diff", "R4_revert_fix_F4": "/root/work/C13/fix-F4.diff", "R5_revert_fix_F5": "/root/work/C13/fix-F5.diff"}
MUTS = {
 "M1_ns_ignores_slash": ("hed/models/hed_tag.py", "            if first_slash != -1 and first_colon > first_slash:\n                return \"\"\n", "            if first_slash != -1 and first_colon > first_slash + 1:\n                return \"\"\n"),
 "M3_twa_without_namespace": ("hed/schema/hed_schema.py", "                                                                    schema_namespace=self._namespace)", "                                                                    schema_namespace=\"\")"),
 "M4_prefix_isalnum": ("hed/schema/hed_schema.py", "if schema_namespace and not (schema_namespace[:-1].isalpha() and schema_namespace.isascii()):", "if schema_namespace and not (schema_namespace[:-1].isalnum() and schema_namespace.isascii()):"),
 "M6_merge_keeps_standard_dups": ("hed/schema/schema_io/base2schema.py", "if not entry.has_attribute(HedKey.InLibrary) and self.appending_to_schema and self._schema.merged:", "if not entry.has_attribute(HedKey.InLibrary) and self.appending_to_schema and not self._schema.merged:"),
 "M10_inlibrary_on_standard": ("hed/schema/schema_io/base2schema.py", "                not self._schema.with_standard or (not self._schema.merged and self._schema.with_standard)):", "                not self._schema.with_standard or (self._schema.merged and self._schema.with_standard)):"),
 "M14_group_lookup_casefold": ("hed/schema/hed_schema_group.py", "        schema = self._schemas.get(namespace)\n", "        schema = self._schemas.get(namespace.lower())\n"),
 "M13_long_tag_drops_namespace": ("hed/models/hed_tag.py", "            return f\"{self._namespace}{self._schema_entry.long_tag_name}{self._extension_value}\"", "            return f\"{self._schema_entry.long_tag_name}{self._extension_value}\""),
 "M15_same_version_other_prefix_check": ("hed/schema/hed_schema_io.py", "        if version in out_versions[schema_namespace]:", "        if version in out_versions[schema_namespace] and not schema_namespace:"),
 "M16_find_rem_offbyone": ("hed/schema/hed_schema_group.py", "        return specific_schema._find_tag_entry(tag, schema_namespace)", "        return specific_schema._find_tag_entry(tag, schema_namespace[:-1]) if len(schema_namespace) > 3 else specific_schema._find_tag_entry(tag, schema_namespace)"),
}
PATCHES = {"S5_seeded_83props_feature_only": "/root/work/seedout/C13/5/patch.diff", "S6_seeded_silent_drop_same_library": "/root/work/seedout/C13/6/patch.diff",
           "S1_seeded": "/root/work/seedout/C13/1/patch.diff", "S2_seeded_find_tag_entry_guard": "/root/work/seedout/C13/2/patch.diff",
           "S3_seeded_no_reidentification": "/root/work/seedout/C13/3/patch.diff", "S4_seeded_cached_prefixed_names": "/root/work/seedout/C13/4/patch.diff",
           "S8_seeded_get_tag_entry_guard_all_sections": "/root/work/seedout/C13/8/patch.diff",
           "S9_seeded": "/root/work/seedout/C13/9/patch.diff", "S10_seeded_loaders_reset_prefix": "/root/work/seedout/C13/10/patch.diff",
           "S11_seeded_extension_word_position": "/root/work/seedout/C13/11/patch.diff"}
which = sys.argv[1:] or (list(PATCHES) + list(REVERTS) + list(MUTS))
for name in which:
    d = f"/root/work/C13/mut/{name}"
    shutil.rmtree(d, ignore_errors=True)
    shutil.copytree(BASE, d)
    if name in PATCHES:
        subprocess.run(["git", "apply", PATCHES[name]], cwd=d, check=True)
    elif name in REVERTS:
        subprocess.run(["git", "apply", "-R", REVERTS[name]], cwd=d, check=True)
    else:
        f, old, new = MUTS[name]
        p = os.path.join(d, f)
        s = open(p, newline="").read()
        old, new = (old.replace("\n", "\r\n"), new.replace("\n", "\r\n")) if "\r\n" in s else (old, new)
        assert s.count(old) == 1, (name, s.count(old))
        open(p, "w", newline="").write(s.replace(old, new))
    r = subprocess.run(["./check", "C13", "--tier", "quick"], cwd="/root/work/C13/verif", env=dict(os.environ, VERIF_REPO=d, VERIF_SEED=os.environ.get("VERIF_SEED", "0")), capture_output=True, text=True)
    lines = [l for l in r.stdout.split("\n") if l.startswith("VIOLATION") or l.startswith("  clause") or l.startswith("C13 ")]
    print("=====", name, "exit", r.returncode)
    print("\n".join(l[:260] for l in lines[:9]))
    sys.stdout.flush()
    shutil.rmtree(d, ignore_errors=True)
