#!/usr/bin/env python3
"""Print a markdown table of the confirmed seeded changes and what the checks did with them."""
import glob, json, os, re
rows = []
for d in sorted(glob.glob("/verif/seeded/*")):
    mp = os.path.join(d, "meta.json")
    if not os.path.exists(mp):
        continue
    m = json.load(open(mp))
    c = m.get("confirmation", {})
    clause = ""
    for l in c.get("check_lines", []):
        mm = re.search(r"clause=([^ ]+)", l)
        if mm:
            clause = mm.group(1); break
    summ = re.sub(r"\s+", " ", m.get("summary", ""))[:150]
    rows.append((os.path.basename(d), "yes" if c.get("detected_with_input") else ("broken-tie only" if c.get("detected") else "NO"), clause, summ))
print("| seeded change | detected by quick check | first clause reported | what was changed |")
print("|---|---|---|---|")
for r in rows:
    print("| %s | %s | %s | %s |" % r)
