#!/usr/bin/env python3
"""Regenerate the generated parts of DESIGN.md section 12 (per-property records from harness/registry.d,
findings/fixes from known_findings.json, seeded-change table from seeded/*/meta.json).
The text between the markers <!-- GEN:BEGIN --> and <!-- GEN:END --> is replaced."""
import glob, json, os, re, subprocess, textwrap
V = "/verif"
props = {}
for l in open(f"{V}/properties.jsonl"):
    p = json.loads(l); props[p["id"]] = p["title"]
out = []
out.append("### 12.3 Per-property record (generated from harness/registry.d — the same texts MANIFEST.json carries)\n")
for f in sorted(glob.glob(f"{V}/harness/registry.d/C*.json")):
    pid = os.path.basename(f)[:-5]; r = json.load(open(f))
    pr = f"{V}/coq/Props/{pid}.v"
    n_thm = len(re.findall(r"^\s*(?:Theorem|Lemma|Example|Corollary)\s", open(pr).read(), re.M)) if os.path.exists(pr) else 0
    out.append(f"**{pid} — {props.get(pid,'')}** ({n_thm} statements in `coq/Props/{pid}.v`)\n")
    out.append("*Technique.* " + r.get("technique","") + "\n")
    out.append("*Proved / tied.* " + r.get("text","") + "\n")
    out.append("*Trusted / limits.* " + r.get("note","") + "\n")
kf = json.load(open(f"{V}/known_findings.json"))
out.append("### 12.4 Findings\n")
out.append("Genuine defects found by the machinery (each first established as a `_refuted` theorem witness on the faithful model and replayed on the implementation). "
           f"{len(kf['fixed'])} were repaired by small `fix:` commits in /repo (the 690 baseline tests pass after each; models carry a `fixed` switch and the checks run against the repaired behaviour; "
           "the `_refuted` theorems remain as records); the others are listed as known findings with a precise class.\n")
out.append("Still listed (the check prints `KNOWN-FINDING` for exactly these classes):\n")
for x in kf["findings"]:
    out.append(f"* `{x['id']}` — {x['what']}\n")
out.append("\nRepaired:\n")
for x in kf["fixed"]:
    out.append("* " + x[len("fixed: "):] + "\n")
out.append("\n### 12.5 Seeded changes and which check catches them\n")
out.append("Produced by fresh sub-agents that saw only the property text and a scratch worktree; each confirmed here (demo passes on the clean tree, fails on the changed tree, 690 baseline tests still pass) and then run through the property's quick check with `tools/seed_confirm.py`. "
           "`yes` = VIOLATION with a concrete replay input; `broken-tie only` = VIOLATION through the model/implementation correspondence (`no-failing-input-found`); the last recorded run is shown "
           "(several were first missed and are caught after the generators/oracles/models were strengthened — see the per-property records).\n")
tab = subprocess.run(["python3", f"{V}/tools/seed_table.py"], capture_output=True, text=True).stdout
out.append(tab)
text = "\n".join(out)
d = open(f"{V}/DESIGN.md").read()
# total number of statements in Props (kept in section 9 between the NOBL markers)
total = 0
for f in sorted(glob.glob(f"{V}/coq/Props/C*.v")):
    if re.fullmatch(r"C\d\d\.v", os.path.basename(f)) or True:
        total += len(re.findall(r"^\s*(?:Theorem|Lemma|Example|Corollary)\s", open(f).read(), re.M))
d = re.sub(r"<!--NOBL-->.*?<!--/NOBL-->", f"<!--NOBL-->{total}<!--/NOBL-->", d)
b, e = "<!-- GEN:BEGIN -->", "<!-- GEN:END -->"
if b in d:
    d = d[:d.index(b) + len(b)] + "\n" + text + "\n" + d[d.index(e):]
    open(f"{V}/DESIGN.md", "w").write(d)
    print("DESIGN.md updated,", len(text), "chars")
else:
    print("markers missing")
