#!/bin/sh
# merge_update.sh Cxx : copy the property's own files from the builder clone HEAD (updated work) into /verif
P=$1; C=/root/work/$P/verif; p=$(echo $P | tr 'A-Z' 'a-z')
cd $C || exit 1
git add -A >/dev/null 2>&1; git commit -q -m "state" >/dev/null 2>&1
BASE=""
for c in $(git rev-list HEAD); do if git -C /verif cat-file -e $c 2>/dev/null; then BASE=$c; break; fi; done
git diff --name-status $BASE HEAD | while read st f; do
  case "$f" in
    harness/common.py|harness/main.py|harness/manifest.py|harness/setup.py|harness/registry.py|coq/Base/Res.v|coq/Base/Str.v|ocaml/common.ml|check|setup.sh|MANIFEST.json|DESIGN.md|BUILDER_BRIEF.md|.gitignore|known_findings.json|tools/merge*|tools/seed_confirm.py|tools/baseline_check.py) echo "skip-shared $st $f";;
    evidence/*|replays/*|seeded/*) ;;
    harness/registry.d/*) case "$f" in harness/registry.d/$P.json) cp $f /verif/$f; echo "copied $f";; *) echo "skip-other-registry $f";; esac;;
    *) if [ "$st" = "D" ]; then echo "DELETED-in-clone $f"; else mkdir -p /verif/$(dirname $f); cp $f /verif/$f; echo "copied $st $f"; fi;;
  esac
done
