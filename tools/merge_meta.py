#!/usr/bin/env python3
"""merge_meta.py Cxx : take CLAIMED[Cxx] from the builder clone's registry.py and its known findings for Cxx."""
import json, sys, runpy
pid = sys.argv[1]
clone = f"/root/work/{pid}/verif"
reg = runpy.run_path(f"{clone}/harness/registry.py")
entry = reg["CLAIMED"][pid]
json.dump(entry, open(f"/verif/harness/registry.d/{pid}.json", "w"), indent=1)
kf = json.load(open("/verif/known_findings.json"))
ckf = json.load(open(f"{clone}/known_findings.json"))
kf["findings"] = [f for f in kf["findings"] if f.get("property") != pid] + [f for f in ckf.get("findings", []) if f.get("property") == pid]
json.dump(kf, open("/verif/known_findings.json", "w"), indent=1)
print("merged registry + findings for", pid, [f["id"] for f in kf["findings"] if f["property"] == pid])
