#!/usr/bin/env python3
"""Confirm a seeded change and run the property's check against it.
usage: seed_confirm.py <Cxx> <k> [--no-baseline] [--tier quick]
Reads /root/work/seedout/<Cxx>/<k>/{patch.diff,demo.py,meta.json}; works in a scratch copy of /repo;
writes /verif/seeded/<Cxx>-<k>/ (patch.diff, demo.py, meta.json with what was run and observed)."""
import json, os, shutil, subprocess, sys, tempfile, time
pid, k = sys.argv[1], sys.argv[2]
no_base = "--no-baseline" in sys.argv
tier = "quick"
src = f"/root/work/seedout/{pid}/{k}"
scratch = tempfile.mkdtemp(prefix=f"mut-{pid}-{k}-", dir="/root/work")
repo = os.path.join(scratch, "repo")
subprocess.run(["git", "-C", "/repo", "worktree", "add", "-q", "--detach", repo, "HEAD"], check=True)
def run(cmd, **kw):
    p = subprocess.run(cmd, shell=True, stdout=subprocess.PIPE, stderr=subprocess.STDOUT, text=True, **kw)
    return p.returncode, p.stdout
env = dict(os.environ, PYTHONPATH=repo, PYTHONHASHSEED="0", PYTHONWARNINGS="ignore")
res = {"property": pid, "k": k,
       "repo_head": subprocess.run(["git", "-C", "/repo", "rev-parse", "--short", "HEAD"], capture_output=True, text=True).stdout.strip()}
try:
    rc, out = run(f"/venv/bin/python {src}/demo.py", env=env, cwd=scratch)
    res["demo_clean_rc"] = rc
    rc, out = run(f"git -C {repo} apply {src}/patch.diff")
    res["apply_rc"] = rc
    if rc != 0:
        res["apply_out"] = out[-500:]
    rc, out = run(f"/venv/bin/python {src}/demo.py", env=env, cwd=scratch)
    res["demo_mutant_rc"] = rc
    res["demo_mutant_tail"] = out[-600:]
    if not no_base:
        rc, out = run(f"python3 /verif/tools/baseline_check.py {repo}")
        res["baseline_rc"] = rc
        res["baseline"] = out.strip().split("\n")[0]
    t0 = time.time()
    rc, out = run(f"VERIF_REPO={repo} ./check {pid} --tier {tier}", cwd="/verif")
    res["check_rc"] = rc
    res["check_wall_s"] = round(time.time() - t0, 1)
    lines = [l for l in out.split("\n") if l.startswith("VIOLATION") or l.startswith("  clause") or l.startswith(pid)]
    res["check_lines"] = lines[:8]
    res["detected"] = (rc == 1 and any(l.startswith(f"VIOLATION property={pid}") for l in lines))
    res["detected_with_input"] = res["detected"] and any(l.startswith("VIOLATION") and "no-failing-input-found" not in l for l in lines)
finally:
    subprocess.run(["git", "-C", "/repo", "worktree", "remove", "--force", repo])
    shutil.rmtree(scratch, ignore_errors=True)
    # a check run against a mutant rewrites evidence; restore it from git if tracked
    subprocess.run(f"git -C /verif checkout -- evidence/{pid}.json 2>/dev/null", shell=True)
confirmed = res.get("demo_clean_rc") == 0 and res.get("demo_mutant_rc") == 1 and (no_base or res.get("baseline_rc") == 0)
res["confirmed"] = confirmed
print(json.dumps(res, indent=1))
if confirmed:
    dst = f"/verif/seeded/{pid}-{k}"
    os.makedirs(dst, exist_ok=True)
    shutil.copy(f"{src}/patch.diff", dst); shutil.copy(f"{src}/demo.py", dst)
    meta = json.load(open(f"{src}/meta.json"))
    meta["confirmation"] = {kk: res[kk] for kk in res if kk not in ("demo_mutant_tail",)}
    meta["ran"] = ["demo.py on clean worktree (exit 0)", "git apply patch.diff", "demo.py on changed worktree (exit 1)",
                   "tools/baseline_check.py on changed worktree (690 stable tests)", f"VERIF_REPO=<changed worktree> ./check {pid} --tier {tier}"]
    json.dump(meta, open(f"{dst}/meta.json", "w"), indent=1)
