#!/usr/bin/env python3
"""Run the repository's pinned baseline in <repo dir> (default /repo) and report which of the
690 stable tests no longer pass.  usage: baseline_check.py [repo_dir]"""
import json, subprocess, sys, tempfile, os, xml.etree.ElementTree as ET
repo = sys.argv[1] if len(sys.argv) > 1 else "/repo"
want = set(json.load(open("/root/.vp/BASELINE.json"))["stable_pass"])
fd, xmlp = tempfile.mkstemp(suffix=".xml"); os.close(fd)
env = dict(os.environ, PYTHONPATH=repo)
env.pop("HED_PYTHON_VERIF", None)
subprocess.run(["/venv/bin/python", "-m", "pytest", "-ra", "-q", "-p", "no:cacheprovider", "--timeout=900",
                "--continue-on-collection-errors", f"--junitxml={xmlp}"], cwd=repo, env=env,
               stdout=subprocess.DEVNULL, stderr=subprocess.DEVNULL)
passed = set()
for tc in ET.parse(xmlp).iter("testcase"):
    if not list(tc):
        passed.add(tc.get("classname") + "::" + tc.get("name"))
os.unlink(xmlp)
missing = sorted(want - passed)
print(f"stable={len(want)} passed_now={len(passed)} stable_now_failing={len(missing)}")
for m in missing[:40]:
    print("  FAIL", m)
sys.exit(1 if missing else 0)
