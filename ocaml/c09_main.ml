(* C09 driver.
   input  = (fx fs (defs: forest ...) (ann: forest) (ops: E|S|C|V|O ...))
     node = (T base ext org namespace) | (G node ...) ; base = D | X | N | (O name tv ur)
     strings are lists of code points
   output = (ok (wf (nissues ...) ((key name takes contents|None) ...)) (step ...))
     step = (heap owned spec val) for the state after 0,1,..,k ops *)
let exn_sx (e : exn) : sx = A (match e with
  | TypeError -> "TypeError" | KeyError -> "KeyError" | AttributeError -> "AttributeError"
  | ValueError -> "ValueError" | IndexError -> "IndexError" | RecursionError -> "RecursionError"
  | HedFileError -> "HedFileError" | CacheError -> "CacheError" | Unmodelled -> "Unmodelled")

let sx_base (x : sx) : base = match x with
  | A "D" -> BDef | A "X" -> BDefExpand | A "N" -> BDefinition
  | L [A "O"; n; tv; ur] -> BOther (sx_str n, sx_bool tv, sx_bool ur)
  | _ -> failwith "base"

let rec sx_node (x : sx) : node = match x with
  | L [A "T"; b; e; o; ns] -> T { tbase = sx_base b; text = sx_str e; torg = sx_str o; tns = sx_str ns }
  | L (A "G" :: ch) -> G (List.map sx_node ch)
  | _ -> failwith "node"

let sx_forest (x : sx) : forest = List.map sx_node (sx_list x)

let sx_op (x : sx) : op = match x with
  | A "E" -> OpExpand | A "S" -> OpShrink | A "C" -> OpCopy | A "V" -> OpValidate | A "O" -> OpSwap
  | _ -> failwith "op"

let flags_sx l = L (List.map (fun (s, (c, x)) -> L [str_sx s; bool_sx c; bool_sx x]) l)

let res_sx (f : 'a -> sx list) (r : 'a res) : sx = match r with
  | Ok a -> L (A "ok" :: f a)
  | Exn e -> L [A "exn"; exn_sx e]

let code_sx = function DefInvalid -> A "DEF_INVALID" | DefExpandInvalid -> A "DEF_EXPAND_INVALID"

let () = main_loop (fun x ->
  ignore (force_types O N0);
  match x with
  | L [fx; fs; defs; ann; ops] ->
    let fx = sx_bool fx in
    let fs = sx_bool fs in
    let defs = List.map sx_forest (sx_list defs) in
    let ann = sx_forest ann in
    let ops = List.map sx_op (sx_list ops) in
    (* dictionary: one check_for_definitions per definition string *)
    let (d, counts) = List.fold_left (fun (d, acc) f ->
        let (d', is) = check_for_definitions d f in (d', acc @ [nat_sx (nat_of_int (List.length is))]))
        ([], []) defs in
    let dict_sx = L (List.map (fun (k, e) ->
        L [str_sx k; str_sx e.ename; bool_sx e.etakes;
           (match e.econtents with None -> A "None" | Some c -> str_sx (str_node (G c)))]) d) in
    let state_sx (h : store res) (o : ostate res) (t : tstate res) : sx =
      let o = (match o with Ok (f, _) -> Ok f | Exn e -> Exn e) in
      let t = (match t with Ok (f, _) -> Ok f | Exn e -> Exn e) in
      let hs = match h with
        | Exn e -> L [A "exn"; exn_sx e]
        | Ok s -> (match abs s with
            | Exn e -> L [A "exn"; exn_sx e]
            | Ok f -> L [A "ok"; str_sx (str_forest f);
                         res_sx (fun l -> [flags_sx l]) (tag_flags s);
                         res_sx (fun b -> [bool_sx b]) (parents_ok s)]) in
      let os = match o with
        | Exn e -> L [A "exn"; exn_sx e]
        | Ok f -> (match abs_of f with
            | Exn e -> L [A "exn"; exn_sx e]
            | Ok g -> L [A "ok"; str_sx (str_forest g); flags_sx (List.concat_map flags_o f)]) in
      let ts = res_sx (fun f -> [str_sx (str_forest f)]) t in
      let vs = match h with
        | Ok s -> (match abs s with
            | Ok f -> res_sx (fun l -> [L (List.map code_sx l)]) (validate_def_tags fs d f)
            | Exn _ -> A "none")
        | Exn _ -> A "none" in
      L [hs; os; ts; vs] in
    let bindr r f = match r with Ok a -> f a | Exn e -> Exn e in
    let rec go h o t ops acc =
      let acc = state_sx h o t :: acc in
      match ops with
      | [] -> List.rev acc
      | p :: ops' ->
        go (bindr h (step fx d p)) (bindr o (step_os fx d p)) (bindr t (step_ts d p)) ops' acc in
    let steps = go (Ok (load ann)) (Ok (load_o ann, [])) (Ok (ann, [])) ops [] in
    L [A "ok"; L [bool_sx (wf_dict d); L counts; dict_sx]; L steps]
  | _ -> failwith "case")
