(* C13 driver.  One s-expression per line; strings are lists of code points.  Stateful: schema files are
   registered with (file ...), loaded with (load H ...) and then queried by handle.
     (ns T) (pfx T) (setp FIXED T) (fmt FIXED T) (chars F T) (pvl (T..)) (clear)     FIXED = 0|1: code before/after
     the repairs of C13-F2/F3/F4
     (file KEY LIB VER WSTD UNMERGED ELEMDOM ((LONG ((ATTR (VAL..))..))..))
     (load FIXED H (T..)) (resolve H T) (getent H NAME NS) (twa H required|unique) (grp H (T..)) (cap FIXED H T) (flag H)
     (entries H I) (dups H I) (contains HB HL) (reid HA HB T) (span H T) *)
let exn_sx (e : exn) : sx = A (match e with
  | TypeError -> "TypeError" | KeyError -> "KeyError" | AttributeError -> "AttributeError"
  | ValueError -> "ValueError" | IndexError -> "IndexError" | RecursionError -> "RecursionError"
  | HedFileError -> "HedFileError" | CacheError -> "CacheError" | Unmodelled -> "Unmodelled")

let code_sx (c : code) : sx = A (match c with
  | CharacterInvalid -> "CharacterInvalid" | TildesUnsupported -> "TildesUnsupported"
  | NodeNameEmpty -> "NodeNameEmpty" | PrefixInvalidChars -> "PrefixInvalidChars"
  | LibraryUnmatched -> "LibraryUnmatched" | NoValidTagFound -> "NoValidTagFound"
  | InvalidParentNode -> "InvalidParentNode" | StyleWarning -> "StyleWarning"
  | RequiredTagMissing -> "RequiredTagMissing" | TagNotUnique -> "TagNotUnique"
  | OtherCode (_, _) -> "Other")

let loaderr_sx (e : loaderr) : sx = A (match e with
  | SCHEMA_DUPLICATE_LIBRARY -> "SCHEMA_DUPLICATE_LIBRARY" | SCHEMA_VERSION_INVALID -> "SCHEMA_VERSION_INVALID"
  | FILE_NOT_FOUND -> "FILE_NOT_FOUND" | SCHEMA_DUPLICATE_PREFIX -> "SCHEMA_DUPLICATE_PREFIX"
  | BAD_WITH_STANDARD_MULTIPLE_VALUES -> "BAD_WITH_STANDARD_MULTIPLE_VALUES"
  | SCHEMA_DUPLICATE_NAMES -> "SCHEMA_DUPLICATE_NAMES" | INVALID_LIBRARY_PREFIX -> "INVALID_LIBRARY_PREFIX"
  | ROOTED_TAG_INVALID -> "ROOTED_TAG_INVALID" | ROOTED_TAG_DOES_NOT_EXIST -> "ROOTED_TAG_DOES_NOT_EXIST"
  | IN_LIBRARY_IN_UNMERGED -> "IN_LIBRARY_IN_UNMERGED" | BAD_PARAMETERS -> "BAD_PARAMETERS"
  | TYPE_ERROR -> "TYPE_ERROR")

let the_repo : (str * sfile) list ref = ref []
let handles : (string, lschema list) Hashtbl.t = Hashtbl.create 16

let atom = function A a -> a | L _ -> failwith "atom"
let attrs_of_sx (x : sx) : (str * str list) list =
  List.map (fun kv -> match kv with
    | L [k; L vs] -> (sx_str k, List.map sx_str vs)
    | _ -> failwith "attr") (sx_list x)
let attrs_sx (a : (str * str list) list) : sx =
  L (List.map (fun (k, vs) -> L [str_sx k; L (List.map str_sx vs)]) a)
let entry_sx (e : entry) : sx = L [str_sx e.en_name; str_sx e.en_long; str_sx e.en_short; attrs_sx e.en_attrs]
let get_handle h = try Hashtbl.find handles h with Not_found -> failwith ("no-handle-" ^ h)
let opt_str_sx = function None -> A "none" | Some s -> L [str_sx s]

let () = main_loop (fun x ->
  ignore (force_types O N0);
  match x with
  | L [A "ns"; t] -> str_sx (get_schema_namespace (sx_str t))
  | L [A "pfx"; t] -> A (string_of_int (List.length (x_prefix_issues (get_schema_namespace (sx_str t)))))
  | L [A "setp"; f; t] ->
      (match x_set_schema_prefix (sx_bool f) (sx_str t) with
       | Ok s -> L [A "ok"; str_sx s]
       | Exn e -> L [A "exn"; exn_sx e])
  | L [A "fmt"; f; t] -> A (string_of_int (List.length (x_check_tag_formatting (sx_bool f) (sx_str t))))
  | L [A "chars"; f; t] -> L (List.map code_sx (x_char_issues (sx_bool f) (sx_str t)))
  | L [A "pvl"; L ts] ->
      (match parse_version_list (List.map sx_str ts) with
       | LOk d -> L [A "ok"; L (List.map (fun (k, v) -> L [str_sx k; str_sx v]) d)]
       | LErr e -> L [A "err"; loaderr_sx e])
  | L [A "clear"] -> the_repo := []; Hashtbl.reset handles; L [A "ok"]
  | L [A "file"; key; lib; ver; wstd; unm; ed; L nodes] ->
      let nodes = List.map (fun nd -> match nd with
        | L [long; attrs] -> { td_long = sx_str long; td_value_child = false; td_ext_allowed = false;
                               td_takes_value = false; td_attrs = attrs_of_sx attrs }
        | _ -> failwith "node") nodes in
      let f = { f_library = sx_str lib; f_version = sx_str ver; f_with_std = sx_str wstd;
                f_unmerged = sx_bool unm; f_elem_domain = sx_bool ed; f_nodes = nodes } in
      let k = sx_str key in
      the_repo := (k, f) :: (List.filter (fun (k', _) -> k' <> k) !the_repo);
      L [A "ok"; A (string_of_int (List.length nodes))]
  | L [A "load"; f; A h; L ts] ->
      (match x_load_schema_version (sx_bool f) !the_repo (List.map sx_str ts) with
       | LOk ls ->
           Hashtbl.replace handles h ls;
           L [A "ok"; L (List.map (fun l ->
             L [str_sx l.l_ns; str_sx l.l_library; str_sx l.l_version; str_sx l.l_with_std; bool_sx l.l_merged;
                A (string_of_int (List.length l.l_table.t_entries));
                A (string_of_int (List.length l.l_table.t_dups))]) ls)]
       | LErr e -> L [A "err"; loaderr_sx e; exn_sx (loaderr_exn e)])
  | L [A "resolve"; A h; t] ->
      let (r, iss) = x_resolve (get_handle h) (sx_str t) in
      (match r.rt_entry with
       | Some e -> L [str_sx r.rt_ns; A "1"; str_sx e.en_name; str_sx e.en_long; opt_str_sx r.rt_rem;
                      L (List.map code_sx iss); str_sx (long_tag r); str_sx (org_base_tag r)]
       | None -> L [str_sx r.rt_ns; A "0"; L []; L []; opt_str_sx r.rt_rem; L (List.map code_sx iss);
                    str_sx (long_tag r); str_sx (org_base_tag r)])
  | L [A "getent"; A h; name; ns] ->
      (match x_get_tag_entry (get_handle h) (sx_str name) (sx_str ns) with
       | Some e -> L [A "1"; str_sx e.en_name]
       | None -> L [A "0"])
  | L [A "twa"; A h; A a] ->
      let c = cfg_of (get_handle h) in
      L (List.map str_sx (c.c_twa (if a = "required" then Required else Unique)))
  | L [A "grp"; A h; L ts] -> L (List.map code_sx (x_group_rules (get_handle h) (List.map sx_str ts)))
  | L [A "cap"; f; A h; t] ->
      let (r, _) = x_resolve (get_handle h) (sx_str t) in
      A (string_of_int (List.length (x_check_capitalization (sx_bool f) r)))
  | L [A "flag"; A h] -> bool_sx (cfg_of (get_handle h)).c_flag
  | L [A "entries"; A h; i] ->
      let l = List.nth (get_handle h) (sx_int i) in
      L (List.map entry_sx l.l_table.t_entries)
  | L [A "dups"; A h; i] ->
      let l = List.nth (get_handle h) (sx_int i) in
      L (List.map (fun k -> L (List.map str_sx k)) l.l_table.t_dups)
  | L [A "reid"; A ha; A hb; t] ->
      (* HedTag(t, A) then _calculate_to_canonical_forms(B) *)
      let txt = sx_str t in
      let (ra, _) = x_resolve (get_handle ha) txt in
      let (rb, iss) = reidentify (cfg_of (get_handle hb)) txt ra in
      L [(match rb.rt_entry with Some e -> L [A "1"; str_sx e.en_name] | None -> L [A "0"]);
         str_sx (ext_value rb); L (List.map code_sx iss); str_sx (tag_text txt ra)]
  | L [A "span"; A h; t] ->
      (* place of the INVALID_PARENT_NODE issue of tag text t under the loaded schemas *)
      let txt = sx_str t in
      let ns = get_schema_namespace txt in
      (match List.find_opt (fun l -> l.l_ns = ns) (get_handle h) with
       | None -> A "none"
       | Some l ->
           let rec drop n x = if n = 0 then x else (match x with [] -> [] | _ :: r -> drop (n - 1) r) in
           let nl = List.length ns in
           (match invalid_parent_span l.l_table (drop nl txt) (nat_of_int nl) with
            | Some (a, b) -> L [nat_sx a; nat_sx b]
            | None -> A "none"))
  | L [A "contains"; A hb; A hl] ->
      let b = List.hd (get_handle hb) and l = List.hd (get_handle hl) in
      bool_sx (contains_standard b.l_table l.l_table)
  | _ -> failwith "bad-command")
