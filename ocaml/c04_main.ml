(* C04 driver.  input  = (fixed nreq nuniq (node ...))
     node = (T short shortf orgf tg tl base basef (uniq...) (req...) def) | (G node ...)
   output = (alltags taglevel dups duration whole codes onset)
     alltags, duration : (kind ...) ; taglevel, dups, whole : (ok kind ...) | (exn Name)
     codes : published code ids of [whole] through the translated table, or (exn Name) *)
let exn_sx (e : exn) : sx = A (match e with
  | TypeError -> "TypeError" | KeyError -> "KeyError" | AttributeError -> "AttributeError"
  | ValueError -> "ValueError" | IndexError -> "IndexError" | RecursionError -> "RecursionError"
  | HedFileError -> "HedFileError" | CacheError -> "CacheError" | Unmodelled -> "Unmodelled")

let kind_sx (k : kind) : sx = A (match k with
  | K_GROUP_EMPTY -> "GROUP_EMPTY" | K_TAG_GROUP_TAG -> "TAG_GROUP_TAG" | K_TOP_LEVEL_TAG -> "TOP_LEVEL_TAG"
  | K_TOP_LEVEL_TAG_DEFINITION -> "TOP_LEVEL_TAG_DEFINITION" | K_TOP_LEVEL_TAG_TEMPORAL -> "TOP_LEVEL_TAG_TEMPORAL"
  | K_MULTIPLE_TOP_TAGS -> "MULTIPLE_TOP_TAGS" | K_TAG_REPEATED -> "TAG_REPEATED"
  | K_TAG_REPEATED_GROUP -> "TAG_REPEATED_GROUP" | K_TAG_NOT_UNIQUE -> "TAG_NOT_UNIQUE"
  | K_REQUIRED_TAG_MISSING -> "REQUIRED_TAG_MISSING" | K_DURATION_HAS_OTHER_TAGS -> "DURATION_HAS_OTHER_TAGS"
  | K_DURATION_WRONG_NUMBER_GROUPS -> "DURATION_WRONG_NUMBER_GROUPS"
  | K_ONSET_NO_DEF_TAG_FOUND -> "ONSET_NO_DEF_TAG_FOUND" | K_ONSET_TOO_MANY_DEFS -> "ONSET_TOO_MANY_DEFS"
  | K_ONSET_WRONG_NUMBER_GROUPS -> "ONSET_WRONG_NUMBER_GROUPS"
  | K_ONSET_TAG_OUTSIDE_OF_GROUP -> "ONSET_TAG_OUTSIDE_OF_GROUP" | K_ONSET_DEF_UNMATCHED -> "ONSET_DEF_UNMATCHED"
  | K_ONSET_PLACEHOLDER_WRONG -> "ONSET_PLACEHOLDER_WRONG")

let kinds_sx l = L (List.map kind_sx l)
let res_sx (r : kind list res) : sx = match r with
  | Ok l -> L (A "ok" :: List.map kind_sx l)
  | Exn e -> L [A "exn"; exn_sx e]

let rec tree_of (x : sx) : tree = match x with
  | L (A "T" :: [sh; shf; orgf; tg; tl; b; bf; u; r; df]) ->
    T { t_short = sx_str sh; t_shortf = sx_str shf; t_orgf = sx_str orgf;
        t_tg = sx_bool tg; t_tl = sx_bool tl; t_base = sx_nat b; t_basef = sx_nat bf;
        t_uniq = List.map sx_nat (sx_list u); t_req = List.map sx_nat (sx_list r); t_def = sx_nat df }
  | L (A "G" :: ch) -> G (List.map tree_of ch)
  | _ -> failwith "tree_of"

let () = main_loop (fun x ->
  ignore (force_types O N0);
  match x with
  | L [fx; nreq; nuniq; top] ->
    let m = mode_of (sx_bool fx) in
    let nr = sx_nat nreq and nu = sx_nat nuniq in
    let top = List.map tree_of (sx_list top) in
    let whole = group_checks m nr nu top in
    let codes = match whole with
      | Ok l -> L (A "ok" :: List.map (fun k -> nat_sx (code_of k)) l)
      | Exn e -> L [A "exn"; exn_sx e] in
    L [kinds_sx (all_tags_issues nr nu top); res_sx (tag_level_issues top);
       res_sx (check_for_duplicate_groups m top); kinds_sx (validate_duration_tags top);
       res_sx whole; codes; kinds_sx (validate_onset_offset top)]
  | _ -> failwith "bad input")
