(* C15 driver.
   input  (S fx limit <query cps> <root node>)  -> (ok 0|1) | (exn Name)      bool(QueryHandler(q).search(s))
          (C fx limit <query cps>)              -> (ok ntokens balanced) | (exn Name balanced)   compile only
          (E fx limit <query cps> <root node> (steps...))  -> as S, on the object after the history;
             step = (A (path...) node) append | (R (path...) node) replace | (Q <query cps>) a search in between
   fx = 1: the repaired code (fix: commits), limit = available nesting depth
   node = (T id (terms...) short org) | (G id (children...)); a term/short/org is a list of code points *)
let exn_sx (e : exn) : sx = A (match e with
  | TypeError -> "TypeError" | KeyError -> "KeyError" | AttributeError -> "AttributeError"
  | ValueError -> "ValueError" | IndexError -> "IndexError" | RecursionError -> "RecursionError"
  | HedFileError -> "HedFileError" | CacheError -> "CacheError" | Unmodelled -> "Unmodelled")

let rec sx_node (x : sx) : node = match x with
  | L [A "T"; i; L terms; short; org] -> Tag (sx_nat i, List.map sx_str terms, sx_str short, sx_str org)
  | L [A "G"; i; L ch] -> Group (sx_nat i, List.map sx_node ch)
  | _ -> failwith "sx_node"

let () = main_loop (fun x ->
  ignore (force_types O N0);
  match x with
  | L [A "S"; fx; lim; q; root] ->
    (match search (sx_bool fx) (sx_nat lim) (sx_str q) (sx_node root) with
     | Ok b -> L [A "ok"; bool_sx b]
     | Exn e -> L [A "exn"; exn_sx e])
  | L [A "E"; fx; lim; q; root; L steps] ->
    let fxb = sx_bool fx and l = sx_nat lim in
    let step x = match x with
      | L [A "A"; L p; n] -> StEdit (EdAppend (List.map sx_nat p, sx_node n))
      | L [A "R"; L p; n] -> StEdit (EdReplace (List.map sx_nat p, sx_node n))
      | L [A "Q"; q2] -> StSearch (sx_str q2)
      | _ -> failwith "bad-step" in
    let o = List.fold_left (fun o s -> run_step fxb l o (step s)) { o_src = []; o_root = sx_node root } steps in
    (match obj_search fxb l (sx_str q) o with
     | Ok b -> L [A "ok"; bool_sx b]
     | Exn e -> L [A "exn"; exn_sx e])
  | L [A "C"; fx; lim; q] ->
    let s = sx_str q in
    (match compile (sx_bool fx) (sx_nat lim) s with
     | Ok _ -> L [A "ok"; A (string_of_int (List.length (tokenize (fold s)))); bool_sx (balanced_groupers s)]
     | Exn e -> L [A "exn"; exn_sx e; bool_sx (balanced_groupers s)])
  | _ -> failwith "bad-input")
