(* C10 driver.
   input  (H tp ...)            tp = (marker ...), marker = (kind name ...), kind 0=Onset 1=Offset 2=Inset,
                                name = (codepoints)
          (F fixed perm1 perm2 row ...)  perm = N | (i ...); row = (onset ((sev ...) ...) (group ...)), sev 1=ERROR 0=WARNING, one list per non-empty HED cell;
                                group = (delay marker) with delay = N | X (no conversion) | int, marker = N | (kind name ...)
   output (ok ((state) (issue ...)) ...)                 for H, one pair per time point
          (ok (state) ((orig (issue ...)) ...)) | (exn E) for F
   issue = (ikind pos name), state = (key ...) *)
let exn_sx (e : exn) : sx = A (match e with
  | TypeError -> "TypeError" | KeyError -> "KeyError" | AttributeError -> "AttributeError"
  | ValueError -> "ValueError" | IndexError -> "IndexError" | RecursionError -> "RecursionError"
  | HedFileError -> "HedFileError" | CacheError -> "CacheError" | Unmodelled -> "Unmodelled")

let sx_kind x = match sx_int x with 0 -> Onset | 1 -> Offset | _ -> Inset
let sx_marker x = match sx_list x with
  | k :: names -> { mkind = sx_kind k; mdefs = List.map sx_str names }
  | [] -> failwith "marker"
let ikind_sx = function
  | OffsetBeforeOnset -> A "OFFSET_BEFORE_ONSET" | InsetBeforeOnset -> A "INSET_BEFORE_ONSET"
  | SameDefsOneRow -> A "ONSET_SAME_DEFS_ONE_ROW"
let issue_sx (i : issue) = L [ikind_sx i.ikd; nat_sx i.ipos; str_sx i.iname]
let state_sx (st : n list list) = L (List.map str_sx st)
let sx_opt f x = match x with A "N" -> None | _ -> Some (f x)
let sx_perm x = sx_opt (fun y -> List.map sx_nat (sx_list y)) x
let sx_group x = match sx_list x with
  | [d; m] -> ((match d with A "N" -> NoDelay | A "X" -> Delay None | a -> Delay (Some (n_of_int (sx_int a)))), sx_opt sx_marker m)
  | _ -> failwith "group"
let sx_row x = match sx_list x with
  | [o; cells; gs] ->
    { r_onset = n_of_int (sx_int o);
      r_cells = List.map (fun c -> List.map (fun x -> if sx_int x = 1 then SevError else SevWarning) (sx_list c)) (sx_list cells);
      r_groups = List.map sx_group (sx_list gs) }
  | _ -> failwith "row"

let () = main_loop (fun x ->
  ignore (force_types O N0);
  match sx_list x with
  | A "H" :: tps ->
    let h = List.map (fun tp -> List.map sx_marker (sx_list tp)) tps in
    L (A "ok" :: List.map (fun (st, iss) -> L [state_sx st; L (List.map issue_sx iss)]) (run_trace state0 h))
  | A "F" :: fx :: p1 :: p2 :: rows ->
    (match process_file (sx_bool fx) (sx_perm p1) (sx_perm p2) (List.map sx_row rows) with
     | Exn e -> L [A "exn"; exn_sx e]
     | Ok (st, out) ->
       L [A "ok"; state_sx st;
          L (List.map (fun (orig, iss) -> L [nat_sx orig; L (List.map issue_sx iss)]) out)])
  | A "S" :: fx :: files ->
    (* several files on one SpreadsheetValidator object: (S fixed (row ...) (row ...) ...) *)
    let fs = List.map (fun f -> List.map sx_row (sx_list f)) files in
    L (A "ok" :: List.map (fun r -> match r with
        | Exn e -> L [A "exn"; exn_sx e]
        | Ok (st, out) ->
          L [A "ok"; state_sx st;
             L (List.map (fun (orig, iss) -> L [nat_sx orig; L (List.map issue_sx iss)]) out)])
      (validate_seq (sx_bool fx) None fs))
  | _ -> failwith "bad-input")
