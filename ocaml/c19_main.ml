(* C19 driver.  input (one line):
     ((NF NC TH MT) (FILES STAMP LOCKFILE CLOCK) (KINDS...) (EVENTS...))
   FILES = ((V f (G H ..)) (T p f (..)) ..); STAMP = N | T | (A t)
   KINDS = (L v) | R | (D f) | (LF v) | RF ; EVENTS = (R p) | (C p) | (T d)
   output: (ok (pc-before-each-event..) FILES STAMP LOCKFILE FLOCK NETREQS ((pc tries populated cache_err)..)) *)
let cell_sx = function Good -> A "G" | Hole -> A "H"
let sx_cell = function A "G" -> Good | A "H" -> Hole | _ -> failwith "cell"
let fail_sx = function FParse -> "parse" | FURLError -> "urlerror" | FNotCached -> "notcached" | FValueError -> "valueerror" | FFileNotFound -> "filenotfound"
let outcome_sx = function
  | OLoaded -> A "loaded" | OFail e -> A (fail_sx e) | OSkipped -> A "skipped" | OMoved -> A "moved"
let pc_sx (x : pc) : sx =
  let a0 s = L [A s] and a1 s f = L [A s; nat_sx f] and a2 s f i = L [A s; nat_sx f; nat_sx i] in
  match x with
  | LList1 -> a0 "LList1" | PEnter -> a0 "PEnter" | PExists f -> a1 "PExists" f | POpen f -> a1 "POpen" f
  | PWrite (f, i) -> a2 "PWrite" f i | PExit -> a0 "PExit" | LList2 -> a0 "LList2"
  | LRead b -> L [A "LRead"; bool_sx b] | LFallback -> a0 "LFallback" | RBody -> a0 "RBody"
  | RExitOpen -> a0 "RExitOpen" | RExitWrite -> a0 "RExitWrite" | LRecheck -> a0 "LRecheck"
  | DOpen f -> a1 "DOpen" f | DWrite (f, i) -> a2 "DWrite" f i | DReplace f -> a1 "DReplace" f
  | FList1 -> a0 "FList1" | FClean -> a0 "FClean" | FEnter -> a0 "FEnter" | FAcquire -> a0 "FAcquire" | FExists f -> a1 "FExists" f | FTOpen f -> a1 "FTOpen" f
  | FTWrite (f, i) -> a2 "FTWrite" f i | FReplace f -> a1 "FReplace" f | FRelease -> a0 "FRelease"
  | FCheck -> a0 "FCheck" | FRead -> a0 "FRead" | FReadInstalled -> a0 "FReadInstalled"
  | XEnter -> a0 "XEnter" | XAcquire -> a0 "XAcquire" | XBody -> a0 "XBody" | XExit -> a0 "XExit"
  | Done o -> L [A "Done"; outcome_sx o] | Dead -> a0 "Dead"

let sx_file = function
  | L [A "V"; f; L cs] -> (Ver (sx_nat f), List.map sx_cell cs)
  | L [A "T"; p; f; L cs] -> (Tmp (sx_nat p, sx_nat f), List.map sx_cell cs)
  | _ -> failwith "file"
let file_sx (k, cs) = match k with
  | Ver f -> L [A "V"; nat_sx f; L (List.map cell_sx cs)]
  | Tmp (p, f) -> L [A "T"; nat_sx p; nat_sx f; L (List.map cell_sx cs)]
let sx_stamp = function A "N" -> NoStamp | A "T" -> StampTorn | L [A "A"; t] -> StampAt (sx_nat t) | _ -> failwith "stamp"
let stamp_sx = function NoStamp -> A "N" | StampTorn -> A "T" | StampAt t -> L [A "A"; nat_sx t]
let sx_kind = function
  | L [A "L"; v] -> KLoad (sx_nat v) | A "R" -> KRefresh | L [A "D"; f] -> KDownload (sx_nat f)
  | L [A "LF"; v] -> KLoadFixed (sx_nat v) | A "RF" -> KRefreshFixed | L [A "RO"; o] -> KRefreshOf (sx_nat o) | _ -> failwith "kind"
let sx_event = function
  | L [A "R"; p] -> Run (sx_nat p) | L [A "C"; p] -> Crash (sx_nat p) | L [A "T"; d] -> Tick (sx_nat d) | L [A "B"; d] -> Back (sx_nat d)
  | _ -> failwith "event"

let () = main_loop (fun x ->
  ignore (force_types O N0);
  match x with
  | L [L [nf; nc; th; mt; ul]; L [L fs; st; lf; clk]; L ks; L evs] ->
    let c = { nfiles = sx_nat nf; nchunks = sx_nat nc; threshold = sx_nat th; max_tries = sx_nat mt;
              unlink_on_release = (sx_int ul = 1); cleanup_outside_lock = false; memo_stamp = false; per_process_locks = false; ignore_future_stamp = false; parse_fallback = (sx_int ul >= 2) } in
    let has_lf = sx_bool lf in
    let s = { files_of = List.map sx_file fs; stamp = sx_stamp st;
              lockfile = (if has_lf then Some O else None); locks = [];
              next_ino = (if has_lf then S O else O); clock = sx_nat clk; netreqs = O; memos = [] } in
    let w = { sh = s; procs = List.map (fun k -> start (sx_kind k)) ks } in
    let evs = List.map sx_event evs in
    let tr = trace c w evs in
    (* who is inside "with CacheLock" after each event *)
    let inside w = L (List.concat (List.mapi (fun i r -> if holding r.pc_of then [A (string_of_int i)] else []) w.procs)) in
    let rec go w es acc = match es with [] -> (w, List.rev acc) | e :: t -> let w1 = step c w e in go w1 t (inside w1 :: acc) in
    let (w', ins) = go w evs [] in
    L [A "ok";
       L (List.map (function None -> A "-" | Some p -> pc_sx p) tr);
       L (List.map file_sx w'.sh.files_of); stamp_sx w'.sh.stamp;
       bool_sx (match w'.sh.lockfile with None -> false | Some _ -> true);
       L (List.map (fun (i, p) -> L [nat_sx i; nat_sx p]) w'.sh.locks); nat_sx w'.sh.netreqs;
       L (List.map (fun r -> L [pc_sx r.pc_of; nat_sx r.tries; bool_sx r.populated; bool_sx r.cache_err]) w'.procs);
       L ins]
  | _ -> failwith "bad-input")
