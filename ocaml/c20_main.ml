(* C20 driver.
   input  = ((onset (item ...)) ...)      item = (delay|- K x id)   K in N F U P
            (N = Onset name x, F = Offset name x, U = Duration x, P = plain; times in 1/8 s)
   output = (exn E) | (ok rows events base contexts hed)
            rows     = ((onset (id ...)) ...)
            events   = (((start end|- endtime|- id) ...) ...)        event_list
            base     = (((start id) ...) ...)     contexts likewise    hed = ((id ...) ...) *)
let exn_sx (e : exn) : sx = A (match e with
  | TypeError -> "TypeError" | KeyError -> "KeyError" | AttributeError -> "AttributeError"
  | ValueError -> "ValueError" | IndexError -> "IndexError" | RecursionError -> "RecursionError"
  | HedFileError -> "HedFileError" | CacheError -> "CacheError" | Unmodelled -> "Unmodelled")

let z_of_int (i : int) : z = if i = 0 then Z0 else if i > 0 then Zpos (pos_of_int i) else Zneg (pos_of_int (- i))
let int_of_z (x : z) : int = match x with Z0 -> 0 | Zpos p -> int_of_pos p | Zneg p -> - (int_of_pos p)
let z_sx (x : z) : sx = A (string_of_int (int_of_z x))
let n_sx (x : n) : sx = A (string_of_int (int_of_n x))

let item_of_sx (x : sx) : item = match x with
  | L [dl; A k; v; id] ->
    let d = (match dl with A "-" -> None | _ -> Some (z_of_int (sx_int dl))) in
    let kd = (match k with
      | "N" -> KOnset (n_of_int (sx_int v))
      | "F" -> KOffset (n_of_int (sx_int v))
      | "U" -> KDuration (z_of_int (sx_int v))
      | "P" -> KPlain
      | _ -> failwith "kind") in
    { it_delay = d; it_kind = kd; it_id = n_of_int (sx_int id) }
  | _ -> failwith "item"

let row_of_sx (x : sx) : row = match x with
  | L [o; L its] -> { r_onset = z_of_int (sx_int o); r_items = List.map item_of_sx its }
  | _ -> failwith "row"

let ev_sx (e : tevent) : sx =
  L [nat_sx e.ev_start;
     (match e.ev_end with None -> A "-" | Some j -> nat_sx j);
     (match e.ev_end_time with None -> A "-" | Some t -> z_sx t);
     n_sx e.ev_item.it_id]
let ref_sx (e : tevent) : sx = L [nat_sx e.ev_start; n_sx e.ev_item.it_id]

let () = main_loop (fun x ->
  ignore (force_types O N0);
  let h = List.map row_of_sx (sx_list x) in
  match event_manager h with
  | Exn e -> L [A "exn"; exn_sx e]
  | Ok o ->
    L [A "ok";
       L (List.map (fun r -> L [z_sx r.r_onset; L (List.map (fun it -> n_sx it.it_id) r.r_items)]) o.o_rows);
       L (List.map (fun l -> L (List.map ev_sx l)) o.o_events);
       L (List.map (fun l -> L (List.map ref_sx l)) o.o_base);
       L (List.map (fun l -> L (List.map ref_sx l)) o.o_contexts);
       L (List.map (fun l -> L (List.map (fun it -> n_sx it.it_id) l)) o.o_hed)])
