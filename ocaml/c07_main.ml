(* C07 driver.  The model is parametric in the string-level validator; the driver instantiates it
   SYMBOLICALLY: every call of basic/full/banned/temporal returns one symbolic issue naming the call
   (and, for temporal, its position in the call sequence); the harness expands the symbols with the
   implementation's own string-level results.
   input  = (cfg rows errtab)
     cfg    = (header has_onset has_refs (cat ...) fixed npre npost fix_none fix_value fix_mask)
     rows   = ((onset|N ((col id skip) ...) (badkey ...) delaytext ((num|N unit) ...)) ...)
     errtab = ((cellid haserror) ...)
   output = (ok ((src row|- col|-) ...)) | (exn E)
     src = (B id) (F ann) (N ann) (T k ann) (P i) (Q i) U K ;  ann = ((J id..)|(C id..)|(R (k..) id..)|(D k id..) ...) *)
type sym = YBasic of int * bool | YFull of ann | YBanned of ann | YTemp of int * ann | YPre of int | YPost of int

let exn_sx (e : exn) : sx = A (match e with
  | TypeError -> "TypeError" | KeyError -> "KeyError" | AttributeError -> "AttributeError"
  | ValueError -> "ValueError" | IndexError -> "IndexError" | RecursionError -> "RecursionError"
  | HedFileError -> "HedFileError" | CacheError -> "CacheError" | Unmodelled -> "Unmodelled")

let z_of_int (i : int) : z = if i = 0 then Z0 else if i > 0 then Zpos (pos_of_int i) else Zneg (pos_of_int (-i))
let sx_optz = function A "N" -> None | x -> Some (z_of_int (sx_int x))
let sx_n x = n_of_int (sx_int x)

let unit_of = function
  | 0 -> UNone | 1 -> UKey true | 2 -> UKey false | 3 -> UCase true | 4 -> UCase false | _ -> UBad

let sx_cell x = match sx_list x with
  | [c; i; s] -> { c_col = sx_n c; c_id = sx_n i; c_skip = sx_bool s }
  | _ -> failwith "cell"
let sx_delay x = match sx_list x with
  | [v; u] -> { d_num = sx_optz v; d_unit = unit_of (sx_int u) }
  | _ -> failwith "delay"
let sx_row x = match sx_list x with
  | [o; cells; bad; dt; ds] ->
    { r_onset = sx_optz o;
      r_body = { b_cells = List.map sx_cell (sx_list cells); b_badkeys = List.map sx_n (sx_list bad);
                 b_delaytext = sx_bool dt; b_delays = List.map sx_delay (sx_list ds) } }
  | _ -> failwith "row"

let ids_sx l = List.map (fun i -> A (string_of_int (int_of_n i))) l
let piece_sx = function
  | PJoin ids -> L (A "J" :: ids_sx ids)
  | PCells ids -> L (A "C" :: ids_sx ids)
  | PRem (ids, ks) -> L (A "R" :: L (List.map nat_sx ks) :: ids_sx ids)
  | PDelay (ids, k) -> L (A "D" :: nat_sx k :: ids_sx ids)
let ann_sx (a : ann) = L (List.map piece_sx a)

let sym_sx = function
  | YBasic (i, _) -> L [A "B"; A (string_of_int i)]
  | YFull a -> L [A "F"; ann_sx a]
  | YBanned a -> L [A "N"; ann_sx a]
  | YTemp (k, a) -> L [A "T"; A (string_of_int k); ann_sx a]
  | YPre i -> L [A "P"; A (string_of_int i)]
  | YPost i -> L [A "Q"; A (string_of_int i)]

let src_sx = function
  | SBasic y | SFull y | SBanned y | STemporal y | SPre y | SPost y -> sym_sx y
  | SUnordered -> A "U"
  | SKeyMissing -> A "K"

let rec range a b = if a >= b then [] else a :: range (a + 1) b

let parse_cfg cfg = match sx_list cfg with
  | [h; o; r; c; f; p; q; a; b; m] ->
    ({ cf_header = sx_bool h; cf_has_onset = sx_bool o; cf_has_refs = sx_bool r; cf_cats = List.map sx_n (sx_list c);
       cf_fixed = sx_bool f; cf_fix_none = sx_bool a; cf_fix_value = sx_bool b; cf_fix_mask = sx_bool m },
     sx_int p, sx_int q)
  | _ -> failwith "cfg"

let report_sx = function
  | Exn e -> L [A "exn"; exn_sx e]
  | Ok l ->
    L [A "ok"; L (List.map (fun i ->
      L [src_sx i.i_src;
         (match i.i_row with Some r -> nat_sx r | None -> A "-");
         (match i.i_col with Some c -> A (string_of_int (int_of_n c)) | None -> A "-")]) l)]

(* history input = (H cfg rows errtab ops), ops = ((S k row) | V ...); output = (hist (set 0|E) | report ...) *)
let () = main_loop (fun x ->
  ignore (force_types O N0);
  let is_hist, parts = match sx_list x with
    | A "H" :: rest -> true, rest
    | rest -> false, rest in
  match parts with
  | cfg :: rows :: errtab :: more ->
    let cfg, npre, npost = parse_cfg cfg in
    let t = List.map sx_row (sx_list rows) in
    let tab = Hashtbl.create 64 in
    List.iter (fun e -> match sx_list e with [i; b] -> Hashtbl.replace tab (sx_int i) (sx_bool b) | _ -> failwith "errtab")
      (sx_list errtab);
    let raw_is_error = function YBasic (_, e) -> e | _ -> false in
    let basic (c : n) = let i = int_of_n c in [YBasic (i, try Hashtbl.find tab i with Not_found -> false)] in
    let full (a : ann) = [YFull a] in
    let banned (a : ann) = [YBanned a] in
    let nonempty (_ : ann) = true in
    let temporal (st : int) (a : ann) = (st + 1, [YTemp (st, a)]) in
    let pre = List.map (fun i -> YPre i) (range 0 npre) in
    let post = List.map (fun i -> YPost i) (range 0 npost) in
    if not is_hist then
      report_sx (validate raw_is_error basic full banned nonempty temporal 0 pre post cfg t)
    else begin
      let ops = match more with
        | [o] -> List.map (fun o -> match sx_list o with
            | [A "S"; k; r] -> OSet (sx_nat k, sx_row r)
            | [A "V"] -> OValidate
            | _ -> failwith "op") (sx_list o)
        | _ -> failwith "ops" in
      let out = run_history raw_is_error basic full banned nonempty temporal 0 pre post cfg t ops in
      L (A "hist" :: List.map (function
        | HSet None -> L [A "set"; A "0"]
        | HSet (Some e) -> L [A "set"; exn_sx e]
        | HReport r -> report_sx r) out)
    end
  | _ -> failwith "input")
