(* C06 driver.  One s-expression per line:
   (R fixed text ref newvalue)            -> (ok str) | (exn E)          replace_ref
   (F text)                               -> ((ref) ...)                 find_refs
   (A fixed sidecar table ord)            -> (ok series cols refs cats types wf) | (exn E)
        sidecar = ((name jv) ...)  jv = (S str) | (D ((key jv) ...)) | O
        table   = (nrows ((name (cell ...)) ...))
   (X fixed ref newvalue (prefix syms) m) -> (md5 count)  digest of replace_ref over every
        symbol string prefix++q, |q| = m, symbols 0..5 = a blank , ( ) {ref}
   (H fixed keepcat sidecar table ops)    -> ((rows (str ...)) | (exn E) | (none) ...) one per operation
   (K lo hi)                              -> ((cp isspace is_ref_char) ...) for the code points
        on which either predicate is true                                                  *)
let exn_sx (e : exn) : sx = A (match e with
  | TypeError -> "TypeError" | KeyError -> "KeyError" | AttributeError -> "AttributeError"
  | ValueError -> "ValueError" | IndexError -> "IndexError" | RecursionError -> "RecursionError"
  | HedFileError -> "HedFileError" | CacheError -> "CacheError" | Unmodelled -> "Unmodelled")

let rec sx_jv (x : sx) : jv = match x with
  | A "O" -> JOther
  | L [A "S"; s] -> JStr (sx_str s)
  | L [A "D"; L kv] -> JDict (List.map (fun p -> match p with
        | L [k; v] -> (sx_str k, sx_jv v) | _ -> failwith "jv-pair") kv)
  | _ -> failwith "jv"

let sx_cols (x : sx) = List.map (fun p -> match p with
  | L [n; L cells] -> (sx_str n, List.map sx_str cells) | _ -> failwith "col") (sx_list x)

let ctype_sx t = A (match t with Ignore -> "ignore" | Categorical -> "categorical" | Value -> "value"
  | HEDTags -> "hed" | Unknown -> "unknown")

let syms = [| "a"; " "; ","; "("; ")" |]
let str_of_ocaml (s : string) : n list = List.init (String.length s) (fun i -> n_of_int (Char.code s.[i]))
let ocaml_of_str (s : n list) : string =
  let b = Buffer.create 16 in
  List.iter (fun c -> let i = int_of_n c in
    if i < 128 then Buffer.add_char b (Char.chr i) else Buffer.add_string b (Printf.sprintf "\\u{%x}" i)) s;
  Buffer.contents b

let () = main_loop (fun x ->
  ignore (force_types O N0);
  match x with
  | L [A "R"; fx; text; r; nv] ->
    (match replace_ref (sx_bool fx) (sx_str text) (sx_str r) (sx_str nv) with
     | Ok s -> L [A "ok"; str_sx s] | Exn e -> L [A "exn"; exn_sx e])
  | L [A "F"; text] -> L (List.map str_sx (find_refs (sx_str text) O))
  | L [A "A"; fx; sc; L [nr; cols]; ord] ->
    let sc = List.map (fun p -> match p with L [k; v] -> (sx_str k, sx_jv v) | _ -> failwith "sc") (sx_list sc) in
    let cols = sx_cols cols in
    let st = { tb_df = { t_cols = cols; t_rows = sx_nat nr }; tb_cat = []; tb_sidecar = sc } in
    let ord = List.map sx_str (sx_list ord) in
    let fixed = sx_bool fx in
    let refs = column_refs sc in
    let types = List.map (fun (k, (ty, _)) -> L [str_sx k; ctype_sx ty]) (final_column_map (List.map fst cols) sc) in
    (match series_a fixed st ord with
     | Exn e -> L [A "exn"; exn_sx e; L (List.map str_sx refs); L types]
     | Ok (st1, ser) ->
       (match assemble fixed st ord with
        | Exn e -> L [A "exn"; exn_sx e; L (List.map str_sx refs); L types]
        | Ok (_, out) ->
          (* second call on the returned object *)
          let again = (match series_a fixed st1 ord with
            | Ok (st2, ser2) -> bool_sx (ser2 = ser && st2 = st1 && st1.tb_df = st.tb_df && st1.tb_sidecar = st.tb_sidecar)
            | Exn _ -> A "0") in
          L [A "ok"; L (List.map str_sx ser); L (List.map (fun (k, c) -> L [str_sx k; L (List.map str_sx c)]) out);
             L (List.map str_sx refs); L (List.map str_sx st1.tb_cat); L types;
             L (List.map (fun s -> bool_sx (wf_delim s)) ser); again]))
  | L [A "H"; fx; kc; sc; L [nr; cols]; L ops] ->
    (* history on one object: ops = (A ord) | (S sidecar) | (C r c text) *)
    let sx_sc sc = List.map (fun p -> match p with L [k; v] -> (sx_str k, sx_jv v) | _ -> failwith "sc") (sx_list sc) in
    let st = { tb_df = { t_cols = sx_cols cols; t_rows = sx_nat nr }; tb_cat = []; tb_sidecar = sx_sc sc } in
    let ops = List.map (fun o -> match o with
      | L [A "A"; ord] -> OAssemble (List.map sx_str (sx_list ord))
      | L [A "S"; sc] -> OReset (sx_sc sc)
      | L [A "C"; r; c; v] -> OSetCell (sx_nat r, sx_nat c, sx_str v)
      | _ -> failwith "op") ops in
    L (List.map (fun r -> match r with
      | RRows rows -> L [A "rows"; L (List.map str_sx rows)]
      | RExn e -> L [A "exn"; exn_sx e]
      | RNone -> L [A "none"]) (run (sx_bool fx) (sx_bool kc) { o_tab = st; o_cats = [] } ops))
  | L [A "X"; fx; r; nv; L prefix; m] ->
    let fixed = sx_bool fx and r = sx_str r and nv = sx_str nv in
    let refs = "{" ^ ocaml_of_str r ^ "}" in
    let sym i = if i < 5 then syms.(i) else refs in
    let pre = String.concat "" (List.map (fun a -> sym (sx_int a)) prefix) in
    let m = sx_int m in
    let buf = Buffer.create (1 lsl 20) in
    let cnt = ref 0 in
    let rec go k acc =
      if k = 0 then begin
        incr cnt;
        (match replace_ref fixed (str_of_ocaml (pre ^ acc)) r nv with
         | Ok s -> Buffer.add_string buf (ocaml_of_str s)
         | Exn e -> Buffer.add_string buf (match exn_sx e with A a -> "!" ^ a | _ -> "!"));
        Buffer.add_char buf '\n'
      end else for i = 0 to 5 do go (k - 1) (acc ^ sym i) done in
    go m "";
    L [A (Digest.to_hex (Digest.string (Buffer.contents buf))); A (string_of_int !cnt)]
  | L [A "K"; lo; hi] ->
    let acc = ref [] in
    for c = sx_int hi - 1 downto sx_int lo do
      let a = isspace (n_of_int c) and b = is_ref_char (n_of_int c) in
      if a || b then acc := L [A (string_of_int c); bool_sx a; bool_sx b] :: !acc
    done; L !acc
  | _ -> failwith "bad-command")
