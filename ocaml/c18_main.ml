(* C18 driver.  One request per line:
     (crash FIXED TREE FILES NAME TS ((n k) ...))   k = -1: no partial effect; FIXED = 1: code after
                                                     the fix: commit for C18-F1 (disk check)
        -> ((effective effects) ((outcome state) ...))
     (hist FIXED TREE (STEP ...)) -> ((result state) ...)
   TREE  = ((path node) ...), path = (str ...), str = (codepoint ...), node = D | (F str)
   STEP  = (create files name ts) | (stale files name ts) | (write path str) | (delete path)
         | (mkdir path) | (restore name (tasks)) | (remodel name (tasks) (targets) ((in out) ...))
         | (list) | (nop)
   A restore step additionally reports its effective effect trace: ((result state trace) ...)
   Crash points are numbered by EFFECTIVE effects (a mkdir of an existing directory is not one). *)
let exn_sx (e : exn) : sx = A (match e with
  | TypeError -> "TypeError" | KeyError -> "KeyError" | AttributeError -> "AttributeError"
  | ValueError -> "ValueError" | IndexError -> "IndexError" | RecursionError -> "RecursionError"
  | HedFileError -> "HedFileError" | CacheError -> "CacheError" | Unmodelled -> "OSError")

let sx_path (x : sx) : n list list = List.map sx_str (sx_list x)
let path_sx (p : n list list) : sx = L (List.map str_sx p)
let sx_node (x : sx) : node = match x with
  | A _ -> Dir
  | L [_; s] -> File (sx_str s)
  | _ -> failwith "node"
let node_sx (x : node) : sx = match x with Dir -> A "D" | File s -> L [A "F"; str_sx s]
let sx_tree (x : sx) : fs =
  List.map (fun e -> match e with L [p; nd] -> (sx_path p, sx_node nd) | _ -> failwith "tree") (sx_list x)
let state_sx (f : fs) : sx = L (List.map (fun (p, nd) -> L [path_sx p; node_sx nd]) (dump_fs f))

let effect_sx (e : effect) : sx = match e with
  | Mkdir p -> L [A "mkdir"; path_sx p]
  | Copy (s, d) -> L [A "copy"; path_sx s; path_sx d]
  | Write (p, c) -> L [A "write"; path_sx p; str_sx c]

let mgr_sx (m : (n list * n list list) list) : sx =
  L (List.map (fun (nm, ks) -> L [str_sx nm; L (List.map str_sx ks)]) m)
let outcome_sx (r : (n list * n list list) list res) : sx = match r with
  | Exn e -> L [A "exn"; exn_sx e]
  | Ok m -> L [A "ok"; mgr_sx m]

(* positions (in the model's effect list) of the effective effects, and the effects *)
let rec effective f es idx acc = match es with
  | [] -> List.rev acc
  | e :: r ->
    (match apply e f with
     | Ok f' ->
       let eff = (match e with Mkdir p -> lookup f p = None | _ -> true) in
       effective f' r (idx + 1) (if eff then (idx, e) :: acc else acc)
     | Exn _ -> List.rev acc)

let optable (x : sx) : (n list -> n list) =
  let tbl = List.map (fun e -> match e with L [a; b] -> (sx_str a, sx_str b) | _ -> failwith "optable") (sx_list x) in
  fun c -> (try List.assoc c tbl with Not_found -> [n_of_int 63; n_of_int 63])

let unit_res_sx (r : unit res) : sx = match r with Ok _ -> L [A "ok"] | Exn e -> L [A "exn"; exn_sx e]

let last_trace : sx ref = ref (L [])
let step (fixed : bool) (f : fs) (s : sx) : sx * fs = last_trace := L []; match s with
  | L [A "create"; files; nm; ts] ->
    let (f1, r) = mgr_init f in
    (match r with
     | Exn e -> (L [A "exn"; exn_sx e], f1)
     | Ok m ->
       let ((f2, _), rb) = create_backup fixed m f1 (List.map sx_path (sx_list files)) (sx_str nm) (sx_str ts) in
       ((match rb with Ok b -> L [A "ok"; bool_sx b] | Exn e -> L [A "exn"; exn_sx e]), f2))
  | L [A "stale"; files; nm; ts] ->
    let ((f2, _), rb) = create_backup fixed [] f (List.map sx_path (sx_list files)) (sx_str nm) (sx_str ts) in
    ((match rb with Ok b -> L [A "ok"; bool_sx b] | Exn e -> L [A "exn"; exn_sx e]), f2)
  | L [A "write"; p; c] -> (L [A "ok"], uapply (UWrite (sx_path p, sx_str c)) f)
  | L [A "delete"; p] -> (L [A "ok"], uapply (UDelete (sx_path p)) f)
  | L [A "mkdir"; p] -> (L [A "ok"], uapply (UMkdir (sx_path p)) f)
  | L [A "restore"; nm; tasks] ->
    let (f1, r) = mgr_init f in
    (match r with
     | Exn e -> (L [A "exn"; exn_sx e], f1)
     | Ok m ->
       let tasks = List.map sx_str (sx_list tasks) in
       let (f2, r2) = restore_backup m f1 (sx_str nm) tasks in
       (match mgr_get m (sx_str nm) with
        | Some (_ :: _ as keys) ->
          last_trace := L (List.map (fun (_, e) -> effect_sx e)
                             (effective f1 (restore_effects (sx_str nm) tasks keys) 0 []))
        | _ -> ());
       (unit_res_sx r2, f2))
  | L [A "remodel"; nm; tasks; targets; tbl] ->
    let (f2, r2) = run_remodel (optable tbl) f (sx_str nm) (List.map sx_str (sx_list tasks))
        (List.map sx_path (sx_list targets)) in
    (unit_res_sx r2, f2)
  | L [A "nop"] -> (L [A "ok"], f)
  | L [A "list"] ->
    let (f1, r) = mgr_init f in (outcome_sx r, f1)
  | _ -> failwith "step"

let () = main_loop (fun x ->
  ignore (force_types O N0);
  match x with
  | L [A "crash"; fx; tree; files; nm; ts; points] ->
    let fixed = sx_bool fx in
    let f = sx_tree tree in
    let (f0, r0) = mgr_init f in
    let files = List.map sx_path (sx_list files) in
    let nm = sx_str nm and ts = sx_str ts in
    let es = (match r0 with
        | Ok m -> (match mgr_get m nm with
            | Some _ -> []
            | None -> if fixed && exists_ f0 (backup_dir nm) then [] else create_effects nm files ts)
        | Exn _ -> []) in
    let effs = effective f0 es 0 [] in
    let pos = Array.of_list (List.map fst effs) in
    let results = List.map (fun pt ->
        match pt with
        | L [a; b] ->
          let nn = sx_int a and k = sx_int b in
          let i = if nn < Array.length pos then pos.(nn) else List.length es in
          let kk = if k < 0 then None else Some (nat_of_int k) in
          let fc = crash f0 es (nat_of_int i) kk in
          let (f1, r) = mgr_init fc in
          L [outcome_sx r; state_sx f1]
        | _ -> failwith "point") (sx_list points) in
    L [L (List.map (fun (_, e) -> effect_sx e) effs); L results]
  | L [A "hist"; fx; tree; steps] ->
    let fixed = sx_bool fx in
    let f = ref (sx_tree tree) in
    L (List.map (fun s -> let (r, f') = step fixed !f s in f := f'; L [r; state_sx f'; !last_trace]) (sx_list steps))
  | _ -> failwith "request")
