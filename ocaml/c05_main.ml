(* C05 driver.  One command per line:
   (attr S)                     parse_attribute_string
   (fmt MODE ATTRS)             format_tag_attributes; MODE 0 none,1 strip inLibrary,2 df,3 df+strip
   (hdr S)                      _parse_header_attributes_line
   (hdrw SEP PAIRS)             _get_attribs_string_from_schema
   (cmp ATTRS ATTRS)            _compare_attributes_no_order
   (tline S) (eline S)          read one schema-section / other-section MediaWiki line
   (wtag MODE TAG LEVEL ATTRS DESC)        _write_tag_entry + flush, followed by read_tag_line of it
   (went MODE NAME DEPTH INCL ATTRS DESC)  _write_entry + flush, followed by read_entry_line of it
   (ok NAME ATTRS DESC)         side conditions name_ok wiki_attr_ok desc_ok attr_ok
   (tsvw STRIP NAME ATTRS DESC) tsv row, followed by tsv_read_row of it
   (tsvr HEDID NAME ATTRSTR DESC)
   (tsvfiles (0|1 x10))         section files a TSV save writes
   (lines S)                    SchemaLoaderWiki._open_file: the lines of a text
   (cell DESC)                  a TSV cell through to_csv / read_csv as the code configures them
   (tsvloc (S ...) S)           the ten files of a save location: writer, reader
   (tsection (S S ...))         the tag section of a merged MediaWiki file: long names, attributes, descriptions
   (rebuild ((LEVEL ID) ...))   long names the MediaWiki reader rebuilds from order and level
   (xmlname TAG? S)             text of the name element Schema2XML writes
   (mergelib (S S ...))         library header after merging the files, and can_save of it
   (xmln S)                     name part of xml2schema._get_element_tag_value
   (xmld S)                     description part of xml2schema._parse_node
   (tsve STRIP INCL NAME ATTRS DESC)  Schema2DF._write_entry row
   (trav LIB WS MERGED TAGS UNITS SECTIONS)
   S = (codepoints); ATTRS = ((S T) | (S S) ...); DESC = N | S *)
let exn_sx (e : exn) : sx = A (match e with
  | TypeError -> "TypeError" | KeyError -> "KeyError" | AttributeError -> "AttributeError"
  | ValueError -> "ValueError" | IndexError -> "IndexError" | RecursionError -> "RecursionError"
  | HedFileError -> "HedFileError" | CacheError -> "CacheError" | Unmodelled -> "Unmodelled")

let sx_aval = function A _ -> ATrue | x -> AStr (sx_str x)
let aval_sx = function ATrue -> A "T" | AStr s -> str_sx s
let sx_attrs (x : sx) : attrs =
  List.map (fun kv -> match kv with L [k; v] -> (sx_str k, sx_aval v) | _ -> failwith "attr") (sx_list x)
let attrs_sx (a : attrs) : sx = L (List.map (fun (k, v) -> L [str_sx k; aval_sx v]) a)
let sx_desc = function A _ -> None | x -> Some (sx_str x)
let desc_sx = function None -> A "N" | Some s -> str_sx s
let ostr_sx = function None -> A "N" | Some s -> str_sx s

let dis_of_mode (m : int) : str -> bool =
  match m with
  | 0 -> (fun _ -> false)
  | 1 -> attribute_disallowed true
  | 2 -> attribute_disallowed_df false
  | _ -> attribute_disallowed_df true

let rec int_of_z (x : z) : int = match x with Z0 -> 0 | Zpos p -> int_of_pos p | Zneg p -> - (int_of_pos p)

let parsed_sx (r : parsed option res) : sx = match r with
  | Exn e -> L [A "exn"; exn_sx e]
  | Ok None -> L [A "skip"]
  | Ok (Some p) -> L [A "ok"; bool_sx p.p_root; nat_sx p.p_level; str_sx p.p_name; attrs_sx p.p_attrs; desc_sx p.p_desc]

let sx_tag (x : sx) : tag_entry = match x with
  | L [nm; inl; par; at] ->
    { te_name = List.map sx_nat (sx_list nm); te_inlib = sx_bool inl;
      te_parent = (match par with A _ -> None | L [pn; pin] -> Some (List.map sx_nat (sx_list pn), sx_bool pin) | _ -> failwith "par");
      te_attrs = List.map sx_nat (sx_list at) }
  | _ -> failwith "tag"
let sx_entry (x : sx) : entry = match x with
  | L [i; inl; at] -> { e_id = sx_nat i; e_inlib = sx_bool inl; e_attrs = List.map sx_nat (sx_list at) }
  | _ -> failwith "entry"
let nats_sx l = L (List.map nat_sx l)
let sec_sx l = L (List.map (fun (e, at) -> L [nat_sx e.e_id; nats_sx at]) l)

(* VERIF_C05_FIXED (default 1): the repaired readers/writers (findings C05-F1, F3, F4) *)
let fixed : bool = (match Sys.getenv_opt "VERIF_C05_FIXED" with Some "0" -> false | _ -> true)

(* VERIF_C05_FIXED_F5 (default 0): the repair of finding C05-F5 (names stripped by the XML/TSV readers) *)
let fixed5 : bool = (match Sys.getenv_opt "VERIF_C05_FIXED_F5" with Some "1" -> true | _ -> false)

(* VERIF_C05_FIXED_F8 (default 0): the proposed repair of finding C05-F8 (reader ignores the case of .tsv) *)
let fixed8 : bool = (match Sys.getenv_opt "VERIF_C05_FIXED_F8" with Some "1" -> true | _ -> false)

let () = main_loop (fun x ->
  ignore (force_types O N0);
  match x with
  | L [A "attr"; s] ->
    (match parse_attribute_string (sx_str s) with
     | Ok a -> L [A "ok"; attrs_sx a]
     | Exn e -> L [A "exn"; exn_sx e])
  | L [A "fmt"; m; a] -> str_sx (format_tag_attributes (dis_of_mode (sx_int m)) (sx_attrs a))
  | L [A "hdr"; s] ->
    (match parse_header_attributes_line (sx_str s) with
     | None -> A "fuel"
     | Some (m, u) -> L [L (List.map (fun (k, v) -> L [str_sx k; str_sx v]) m); L (List.map str_sx u)])
  | L [A "hdrw"; sep; pairs] ->
    str_sx (get_attribs_string
              (List.map (fun kv -> match kv with L [k; v] -> (sx_str k, sx_str v) | _ -> failwith "pair") (sx_list pairs))
              (sx_str sep))
  | L [A "cmp"; a; b] -> bool_sx (compare_attributes_no_order (sx_attrs a) (sx_attrs b))
  | L [A "tline"; s] -> parsed_sx (read_tag_line fixed (sx_str s))
  | L [A "eline"; s] -> parsed_sx (read_entry_line fixed (sx_str s))
  | L [A "wtag"; m; tag; lvl; a; d] ->
    (match write_tag_line (dis_of_mode (sx_int m)) (sx_str tag) (sx_nat lvl) (sx_attrs a) (sx_desc d) with
     | None -> L [A "N"]
     | Some l -> L [str_sx l; parsed_sx (read_tag_line fixed l); bool_sx (row_free_of_reserved fixed (sx_str tag) l)])
  | L [A "went"; m; nm; depth; incl; a; d] ->
    (match write_entry_line (dis_of_mode (sx_int m)) (sx_str nm) (sx_nat depth) (sx_bool incl) (sx_attrs a) (sx_desc d) with
     | None -> L [A "N"]
     | Some l -> L [str_sx l; parsed_sx (read_entry_line fixed l); bool_sx (row_free_of_reserved fixed (sx_str nm) l)])
  | L [A "ok"; nm; a; d] ->
    L [bool_sx (name_ok (sx_str nm)); bool_sx (wiki_attr_ok (sx_attrs a)); bool_sx (desc_ok (sx_desc d));
       bool_sx (attr_ok (sx_attrs a)); bool_sx (tsv_desc_ok (sx_desc d)); bool_sx (ename_ok (sx_str nm))]
  | L [A "tsvw"; st; nm; a; d] ->
    let r = tsv_write_tag_row (sx_bool st) (sx_str nm) (sx_attrs a) (sx_desc d) in
    let back = (match tsv_read_row fixed5 r with
      | Exn e -> L [A "exn"; exn_sx e]
      | Ok ((n, at), de) -> L [A "ok"; str_sx n; attrs_sx at; desc_sx de]) in
    L [str_sx r.r_hed_id; str_sx r.r_name; str_sx r.r_attributes; desc_sx r.r_description; back]
  | L [A "tsvfiles"; flags] ->
    (* files written for tables whose emptiness is given per suffix (1 = has rows) *)
    let fl = List.map sx_bool (sx_list flags) in
    let tbl = List.combine df_suffixes fl in
    let rows_of k = (match List.find_opt (fun (s, _) -> s = k) tbl with Some (_, true) -> [[O]] | _ -> []) in
    L (List.map str_sx (files_written false (output_tables rows_of)))
  | L [A "lines"; t] -> L (List.map str_sx (open_file_lines (sx_str t)))
  | L [A "cell"; c] ->
    desc_sx (cell_value (csv_read_cell [] (csv_write_cell [] (sx_desc c))))
  | L [A "tsvloc"; parent; nm] ->
    let fs l = L (List.map (fun (d, f) -> L [L (List.map str_sx d); str_sx f]) l) in
    let par = List.map sx_str (sx_list parent) in
    L [fs (writer_files par (sx_str nm)); fs (reader_files fixed8 par (sx_str nm))]
  | L [A "tsection"; ls] ->
    (match read_tag_section fixed [] (List.map sx_str (sx_list ls)) with
     | Exn e -> L [A "exn"; exn_sx e]
     | Ok items -> L [A "ok"; L (List.map (fun it -> L [L (List.map str_sx it.ti_path); attrs_sx it.ti_attrs; desc_sx it.ti_desc]) items)])
  | L [A "rebuild"; ls] ->
    (match rebuild_names [] (List.map (fun x -> match x with L [l; n] -> (sx_nat l, sx_nat n) | _ -> failwith "rebuild") (sx_list ls)) with
     | Exn e -> L [A "exn"; exn_sx e]
     | Ok names -> L [A "ok"; L (List.map nats_sx names)])
  | L [A "xmlname"; tg; t] -> str_sx (xml_name_text (sx_bool tg) (sx_str t))
  | L [A "mergelib"; libs] ->
    (match List.map sx_str (sx_list libs) with
     | first :: more -> let l = merged_library false first more in L [str_sx l; bool_sx (can_save l)]
     | [] -> failwith "mergelib")
  | L [A "xmln"; t] -> str_sx (xml_read_name fixed5 (sx_str t))
  | L [A "xmld"; t] -> desc_sx (xml_read_desc fixed (sx_str t))
  | L [A "tsve"; st; incl; nm; a; d] ->
    let r = tsv_write_entry_row fixed (sx_bool st) (sx_bool incl) (sx_str nm) (sx_attrs a) (sx_desc d) in
    L [str_sx r.r_hed_id; str_sx r.r_name; str_sx r.r_attributes; desc_sx r.r_description]
  | L [A "tsvr"; h; nm; at; d] ->
    (match tsv_read_row fixed5 { r_hed_id = sx_str h; r_name = sx_str nm; r_attributes = sx_str at; r_description = sx_desc d } with
     | Exn e -> L [A "exn"; exn_sx e]
     | Ok ((n, a), de) -> L [A "ok"; str_sx n; attrs_sx a; desc_sx de])
  | L [A "trav"; lib; ws; m; tags; units; secs] ->
    (match process_schema (sx_str lib) (sx_str ws) (sx_bool m) (List.map sx_tag (sx_list tags))
             (List.map (fun cu -> match cu with L [c; us] -> (sx_entry c, List.map sx_entry (sx_list us)) | _ -> failwith "cu") (sx_list units))
             (List.map (fun s -> List.map sx_entry (sx_list s)) (sx_list secs)) with
     | Exn e -> L [A "exn"; exn_sx e]
     | Ok o ->
       L [A "ok";
          L (List.map (fun w -> L [nats_sx w.w_entry.te_name; A (string_of_int (int_of_z w.w_level));
                                   (match w.w_parent with None -> A "N" | Some p -> nats_sx p); nats_sx w.w_attrs]) o.o_tags);
          L (List.map (fun ((c, props), us) -> L [nat_sx c.e_id; bool_sx props; sec_sx us]) o.o_units);
          L (List.map sec_sx o.o_sections)])
  | _ -> failwith "unknown-command")
