(* C11 driver.  Input, one per line:
     (<dump-path> <fixed 0|1> <f3 0|1> <f4 0|1> <numeric 0|1> (<class name cps> ...) (<extension cps>))
   Output: ((codes...) <value>)   codes: V = VALUE_INVALID, I = UNITS_INVALID, M = UNITS_MISSING
           value: none | (q <num> <den>) | (exn <name>)      integers in binary: [-]b1011 or 0
   or (<dump-path> M <f3> <f4> ((<numeric> (<class>...) (<extension>)) ...)) -> (codes...) for a whole string.
   The schema dump (written by the translator from the same dict as coq/Gen/Units_<v>.v) is
     ((class ...) ...) ((mod ...) ...)   see harness/c11.py dump_sx *)
let exn_name (e : exn) : string = match e with
  | TypeError -> "TypeError" | KeyError -> "KeyError" | AttributeError -> "AttributeError"
  | ValueError -> "ValueError" | IndexError -> "IndexError" | RecursionError -> "RecursionError"
  | HedFileError -> "HedFileError" | CacheError -> "CacheError" | Unmodelled -> "Unmodelled"

let rec pos_bits (p : positive) : string = match p with
  | XH -> "1" | XO q -> pos_bits q ^ "0" | XI q -> pos_bits q ^ "1"
let z_sx (x : z) : sx = match x with
  | Z0 -> A "0" | Zpos p -> A ("b" ^ pos_bits p) | Zneg p -> A ("-b" ^ pos_bits p)

let sx_opt_str (x : sx) : n list option = match x with
  | L [] -> None | L [s] -> Some (sx_str s) | _ -> failwith "opt"

let unit_of_sx (x : sx) : unitdef = match x with
  | L [nm; sym; pre; si; fac; pl] ->
    { u_name = sx_str nm; u_symbol = sx_bool sym; u_prefix = sx_bool pre; u_si = sx_bool si;
      u_factor = sx_opt_str fac; u_plural = sx_str pl }
  | _ -> failwith "unit"
let class_of_sx (x : sx) : classdef = match x with
  | L [nm; df; L us] -> { c_name = sx_str nm; c_default = sx_opt_str df; c_units = List.map unit_of_sx us }
  | _ -> failwith "class"
let mod_of_sx (x : sx) : moddef = match x with
  | L [nm; a; b; fac] -> { m_name = sx_str nm; m_si_mod = sx_bool a; m_si_sym = sx_bool b; m_factor = sx_opt_str fac }
  | _ -> failwith "mod"
let schema_of_sx (x : sx) : uschema = match x with
  | L [L cs; L ms] -> { s_classes = List.map class_of_sx cs; s_mods = List.map mod_of_sx ms }
  | _ -> failwith "schema"

let cache : (string, uschema) Hashtbl.t = Hashtbl.create 16
let load (path : string) : uschema =
  match Hashtbl.find_opt cache path with
  | Some s -> s
  | None ->
    let ic = open_in path in
    let line = input_line ic in
    close_in ic;
    let s = schema_of_sx (parse_sx line) in
    Hashtbl.add cache path s; s

let code_sx (c : code) : sx = A (match c with VALUE_INVALID -> "V" | UNITS_INVALID -> "I" | UNITS_MISSING -> "M")

let () = main_loop (fun x ->
  ignore (force_types O N0);
  match x with
  | L [A path; fx; x3; x4; num; L cls; ext] ->
    let s = load path in
    let fixed = sx_bool fx in
    let f3 = sx_bool x3 in
    let f4 = sx_bool x4 in
    let t = { t_name = []; t_classes = List.map sx_str cls; t_numeric = sx_bool num } in
    let e = sx_str ext in
    let codes = validate_units f3 f4 s t e in
    let cs = tag_unit_classes s t in
    let v = match value_as_default_unit fixed f3 f4 s cs e with
      | Exn ex -> L [A "exn"; A (exn_name ex)]
      | Ok None -> A "none"
      | Ok (Some q) -> let r = qred q in L [A "q"; z_sx r.qnum; z_sx (Zpos r.qden)] in
    L [L (List.map code_sx codes); v]
  | L [A path; A "M"; x3; x4; L tags] ->
    (* a whole string: ((numeric (classes) (extension)) ...) in visiting order -> (codes...) *)
    let s = load path in
    let mk = function
      | L [num; L cls; ext] ->
        ({ t_name = []; t_classes = List.map sx_str cls; t_numeric = sx_bool num }, sx_str ext)
      | _ -> failwith "tag" in
    L (List.map code_sx (validate_units_string (sx_bool x3) (sx_bool x4) s (List.map mk tags)))
  | _ -> failwith "case")
