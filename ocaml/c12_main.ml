(* C12 driver.  One command per line:
   (table)
   (fmt KIND SRC IDX IDXEND SEV ACTUAL)            -> (ok ISSUE) | (exn E)
   (validate FIXED WARN CTX (ISSUE..) (ISSUE..))   -> (ok (ISSUE..)) | (exn E)
   (decorate FIXED WARN PASSES CTX (ISSUE..))      -> (ok (ISSUE..)) | (exn E)
   (sort REVERSE (ISSUE..))                        -> (ok (sev..)) | (exn E)   (sev carries the index)
   (export (ISSUE..))                              -> (ok JSONOK ((CODE|N) ((KEY TYPE)..))..)
   (ctxops WARN (OP..))  OP = (push KEY VAL|N) | (pop)  -> (ok CTX) | (exn E)
   ISSUE in  = (CODE SEV IDX|N IDXEND|N SRC CTX CHAR|N (SUFFIX..) MTAG|N MFRAG|N)
   SRC = N | I | (T id start end TEXT ORG modified) | (G id start end nonempty PRINTED ORG) | (S STR)
   CTX = ((KEY VAL)..)   VAL = (s STR) | (i int) | (h HSTR)   HSTR = (H TEXT (ids..) (HSTR..)) *)
let exn_sx (e : exn) : sx = A (match e with
  | TypeError -> "TypeError" | KeyError -> "KeyError" | AttributeError -> "AttributeError"
  | ValueError -> "ValueError" | IndexError -> "IndexError" | RecursionError -> "RecursionError"
  | HedFileError -> "HedFileError" | CacheError -> "CacheError" | Unmodelled -> "Unmodelled")

let z_of_int (i : int) : z = if i = 0 then Z0 else if i > 0 then Zpos (pos_of_int i) else Zneg (pos_of_int (-i))
let int_of_z (x : z) : int = match x with Z0 -> 0 | Zpos p -> int_of_pos p | Zneg p -> - (int_of_pos p)

let is_n = function A "N" -> true | _ -> false
let opt f x = if is_n x then None else Some (f x)
let opt_sx f = function None -> A "N" | Some v -> f v

let ckey_of = function
  | A "title" -> CTitle | A "file" -> CFile | A "scol" -> CSidecarCol | A "skey" -> CSidecarKey
  | A "row" -> CRow | A "col" -> CColumn | A "line" -> CLine | A "hed" -> CHedString
  | A "sec" -> CSection | A "stag" -> CSchemaTag | A "attr" -> CAttr | _ -> failwith "ckey"
let ckey_sx k = A (match k with
  | CTitle -> "title" | CFile -> "file" | CSidecarCol -> "scol" | CSidecarKey -> "skey"
  | CRow -> "row" | CColumn -> "col" | CLine -> "line" | CHedString -> "hed"
  | CSection -> "sec" | CSchemaTag -> "stag" | CAttr -> "attr")

let rec hstr_of = function
  | L [A "H"; t; ids; parts] -> HS (sx_str t, List.map sx_nat (sx_list ids), List.map hstr_of (sx_list parts))
  | _ -> failwith "hstr"

let cval_of = function
  | L [A "s"; s] -> VStr (sx_str s)
  | L [A "i"; i] -> VInt (z_of_int (sx_int i))
  | L [A "h"; h] -> VHed (hstr_of h)
  | _ -> failwith "cval"
let cval_sx = function
  | VStr s -> L [A "s"; str_sx s]
  | VInt z -> L [A "i"; A (string_of_int (int_of_z z))]
  | VHed h -> L [A "h"; nat_sx (length (hs_text h))]

let ctx_of x = List.map (function L [k; v] -> (ckey_of k, cval_of v) | _ -> failwith "ctx") (sx_list x)
let ctx_sx c = L (List.map (fun (k, v) -> L [ckey_sx k; cval_sx v]) c)

let src_of = function
  | A "N" -> None
  | A "I" -> Some SrcInt
  | L [A "T"; id; s; e; text; org; m] ->
    Some (SrcTag { t_id = sx_nat id; t_start = sx_nat s; t_end = sx_nat e; t_text = sx_str text;
                   t_org = sx_str org; t_modified = sx_bool m })
  | L [A "G"; id; s; e; ne; pr; org] -> Some (SrcGroup (sx_nat id, sx_nat s, sx_nat e, sx_bool ne, sx_str pr, sx_str org))
  | L [A "S"; s] -> Some (SrcStr (sx_str s))
  | _ -> failwith "src"

let pair_of = function L [a; b] -> (sx_nat a, sx_nat b) | _ -> failwith "pair"
let pair_sx (a, b) = L [nat_sx a; nat_sx b]

let issue_of = function
  | L [code; sev; idx; idxe; src; ctx; ch; suf; mt; mf] ->
    { i_code = sx_str code; i_sev = sx_nat sev; i_msg = { m_tag = opt sx_str mt; m_frag = opt sx_str mf };
      i_idx = opt sx_nat idx; i_idx_end = opt sx_nat idxe; i_src = src_of src; i_ctx = ctx_of ctx;
      i_char = opt pair_of ch; i_suffixes = List.map pair_of (sx_list suf) }
  | _ -> failwith "issue"

let issue_sx (i : issue) : sx =
  L [str_sx i.i_code; nat_sx i.i_sev; opt_sx nat_sx i.i_idx; opt_sx nat_sx i.i_idx_end;
     opt_sx pair_sx i.i_char; L (List.map pair_sx i.i_suffixes);
     opt_sx str_sx i.i_msg.m_tag; opt_sx str_sx i.i_msg.m_frag; ctx_sx i.i_ctx;
     A (match i.i_src with None -> "N" | Some (SrcTag _) -> "T" | Some (SrcGroup _) -> "G"
                         | Some SrcInt -> "I" | Some (SrcStr _) -> "S")]

let res_issues = function
  | Ok l -> L [A "ok"; L (List.map issue_sx l)]
  | Exn e -> L [A "exn"; exn_sx e]

let rec pytype (v : pyval) : sx = match v with
  | PBool _ -> A "bool" | PInt _ -> A "int" | PFloat _ -> A "float" | PStr _ -> A "str"
  | PNone -> A "None" | PObj _ -> A "obj"
  | PList l -> L (A "list" :: List.map pytype l)
  | PDict d -> L (A "dict" :: List.map (fun (k, x) -> L [str_sx k; pytype x]) d)

(* ---- inputs of the file-level paths *)
let ev_of = function
  | L [kind; src] -> (sx_str kind, { a_tag = src_of src; a_idx = O; a_idx_end = None; a_sev = None })
  | _ -> failwith "event"
let evs_of x = List.map ev_of (sx_list x)
let issues_of x = List.map issue_of (sx_list x)
let sc_input_of = function
  | L [name; st; refs; nested; defs; cols; bad] ->
    { si_name = opt cval_of name;
      si_struct = List.map (function
        | L [n; evs; keys] -> { stc_name = sx_str n; stc_events = evs_of evs;
                                stc_keys = List.map (function L [k; e] -> (sx_str k, evs_of e) | _ -> failwith "stkey") (sx_list keys) }
        | _ -> failwith "stcol") (sx_list st);
      si_refs = List.map (function
        | L [n; strs; self] -> { rfc_name = sx_str n;
                                 rfc_strs = List.map (function
                                   | L [k; h; e] -> { rfs_key = opt sx_str k; rfs_hs = hstr_of h; rfs_events = evs_of e }
                                   | _ -> failwith "rfstr") (sx_list strs);
                                 rfc_self = evs_of self }
        | _ -> failwith "rfcol") (sx_list refs);
      si_nested = evs_of nested;
      si_defs = issues_of defs;
      si_cols = List.map (function
        | L [n; strs] -> { scc_name = sx_str n;
                           scc_strs = List.map (function
                             | L [k; h; basic; combos] ->
                               { scs_key = opt sx_str k; scs_hs = hstr_of h; scs_basic = issues_of basic;
                                 scs_combos = List.map (function L [h2; l] -> (hstr_of h2, issues_of l) | _ -> failwith "combo") (sx_list combos) }
                             | _ -> failwith "scstr") (sx_list strs) }
        | _ -> failwith "sccol") (sx_list cols);
      si_badspot = List.map (function L [n; e] -> (sx_str n, evs_of e) | _ -> failwith "bad") (sx_list bad) }
  | _ -> failwith "sc_input"
let pstr_of = function L [h; t] -> { ps_hs = hstr_of h; ps_true = sx_bool t } | _ -> failwith "pstr"
let tb_input_of = function
  | L [name; mapping; km; badrefs; unordered; rows; onsets] ->
    { ti_name = opt cval_of name; ti_mapping = issues_of mapping;
      ti_keymissing = List.map (function
        | L [c; res] -> (cval_of c, List.map (function L [r; e] -> (z_of_int (sx_int r), ev_of e) | _ -> failwith "km") (sx_list res))
        | _ -> failwith "kmcol") (sx_list km);
      ti_badrefs = evs_of badrefs; ti_unordered = evs_of unordered;
      ti_rows = List.map (function
        | L [id; label; cells; masked; rs; full] ->
          { tr_id = sx_nat id; tr_label = z_of_int (sx_int label);
            tr_cells = List.map (function L [c; h; b] -> { tbc_col = cval_of c; tbc_hs = hstr_of h; tbc_basic = issues_of b }
                                        | _ -> failwith "cell") (sx_list cells);
            tr_masked = sx_bool masked; tr_rowstr = pstr_of rs; tr_full = issues_of full }
        | _ -> failwith "row") (sx_list rows);
      ti_onsets = opt (fun x -> List.map (function
        | L [o; label; ps; full] -> { or_orig = sx_nat o; or_label = z_of_int (sx_int label); or_str = pstr_of ps; or_full = issues_of full }
        | _ -> failwith "orow") (sx_list x)) onsets }
  | _ -> failwith "tb_input"

let rec iter n f x = if n <= 0 then Ok x else (match f x with Ok y -> iter (n - 1) f y | Exn e -> Exn e)

let () = main_loop (fun x ->
  ignore (force_types O N0);
  match x with
  | L [A "table"] ->
    L [A "ok"; L [bool_sx code_is_fixed; bool_sx code_sorts_early]; nat_sx sev_error; nat_sx sev_warning;
       L (List.map ckey_sx default_sort_list); L (List.map ckey_sx int_sort_list);
       L (List.map (fun r -> L [str_sx r.k_kind; str_sx r.k_code; nat_sx r.k_sev; bool_sx r.k_tag;
                                bool_sx r.k_sub; bool_sx r.k_quotes_tag; bool_sx r.k_quotes_sub]) kind_table);
       L (List.map (fun k -> L [ckey_sx k; str_sx (ckey_name k)])
            [CTitle; CFile; CSidecarCol; CSidecarKey; CRow; CColumn; CLine; CHedString; CSection; CSchemaTag; CAttr])]
  | L [A "fmt"; kind; src; idx; idxe; sev; actual] ->
    let a = { a_tag = src_of src; a_idx = (if is_n idx then O else sx_nat idx); a_idx_end = opt sx_nat idxe;
              a_sev = opt sx_nat sev } in
    (match format_error kind_table (sx_str kind) a (opt sx_str actual) with
     | Ok i -> L [A "ok"; issue_sx i]
     | Exn e -> L [A "exn"; exn_sx e])
  | L [A "validate"; fixed; warn; ctx; basic; full] ->
    let h = { h_ctx = ctx_of ctx; h_warn = sx_bool warn } in
    res_issues (validate (sx_bool fixed) h (List.map issue_of (sx_list basic)) (List.map issue_of (sx_list full)))
  | L [A "decorate"; fixed; warn; passes; ctx; issues] ->
    let h = { h_ctx = ctx_of ctx; h_warn = sx_bool warn } in
    res_issues (iter (sx_int passes) (add_context_and_filter (sx_bool fixed) h) (List.map issue_of (sx_list issues)))
  | L [A "sort"; reverse; issues] ->
    (match sort_issues (List.map issue_of (sx_list issues)) (sx_bool reverse) with
     | Ok l -> L [A "ok"; L (List.map (fun i -> nat_sx i.i_sev) l)]
     | Exn e -> L [A "exn"; exn_sx e])
  | L [A "export"; issues] ->
    let l = List.map issue_of (sx_list issues) in
    let before = PList (List.map issue_py l) in
    let out = export l in
    L [A "ok"; bool_sx (json_ok out); bool_sx (json_ok before);
       L (List.map (fun v -> L [opt_sx str_sx (py_code v); pytype v]) (py_items out))]
  | L [A "ctxops"; warn; ops] ->
    let rec go h = function
      | [] -> L [A "ok"; ctx_sx h.h_ctx]
      | L [A "push"; k; v] :: r -> go (push_error_context h (ckey_of k) (opt cval_of v)) r
      | L [A "pop"] :: r -> (match pop_error_context h with Ok h' -> go h' r | Exn e -> L [A "exn"; exn_sx e])
      | _ -> failwith "op" in
    go { h_ctx = []; h_warn = sx_bool warn } (sx_list ops)
  | L [A "sidecar"; fixed; sort_early; warn; ctx; inp] ->
    let h = { h_ctx = ctx_of ctx; h_warn = sx_bool warn } in
    res_issues (sidecar_validate (sx_bool fixed) (sx_bool sort_early) h (sc_input_of inp))
  | L [A "table"; gate; fixed; warn; ctx; inp] ->
    let h = { h_ctx = ctx_of ctx; h_warn = sx_bool warn } in
    let g = (match gate with A "nonempty" -> gate_nonempty | _ -> check_for_any_errors) in
    res_issues (table_validate_gen g (sx_bool fixed) h (tb_input_of inp))
  | _ -> failwith "command")
