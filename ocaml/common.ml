(* Glue shared by all drivers; textually appended after the extracted model,
   so the extracted [nat], [positive], [n] types are in scope. *)
type sx = A of string | L of sx list

let parse_sx (s : string) : sx =
  let n = String.length s in
  let pos = ref 0 in
  let rec skip () = if !pos < n && (s.[!pos] = ' ' || s.[!pos] = '\t') then (incr pos; skip ()) in
  let rec item () =
    skip ();
    if !pos >= n then failwith "sx: eof"
    else if s.[!pos] = '(' then begin
      incr pos;
      let acc = ref [] in
      let rec loop () =
        skip ();
        if !pos >= n then failwith "sx: unclosed"
        else if s.[!pos] = ')' then incr pos
        else (acc := item () :: !acc; loop ()) in
      loop (); L (List.rev !acc)
    end else begin
      let st = !pos in
      while !pos < n && s.[!pos] <> ' ' && s.[!pos] <> '(' && s.[!pos] <> ')' && s.[!pos] <> '\t' do incr pos done;
      A (String.sub s st (!pos - st))
    end in
  item ()

let rec print_sx (b : Buffer.t) (x : sx) : unit =
  match x with
  | A a -> Buffer.add_string b a
  | L l ->
    Buffer.add_char b '(';
    List.iteri (fun i y -> if i > 0 then Buffer.add_char b ' '; print_sx b y) l;
    Buffer.add_char b ')'

let sx_to_string x = let b = Buffer.create 256 in print_sx b x; Buffer.contents b

let rec nat_of_int (i : int) : nat = if i <= 0 then O else S (nat_of_int (i - 1))
let int_of_nat (x : nat) : int =
  let rec go acc = function O -> acc | S y -> go (acc + 1) y in go 0 x

let rec pos_of_int (i : int) : positive =
  if i <= 1 then XH else if i land 1 = 1 then XI (pos_of_int (i lsr 1)) else XO (pos_of_int (i lsr 1))
let rec int_of_pos (p : positive) : int =
  match p with XH -> 1 | XO q -> 2 * int_of_pos q | XI q -> 2 * int_of_pos q + 1
let n_of_int (i : int) : n = if i <= 0 then N0 else Npos (pos_of_int i)
let int_of_n (x : n) : int = match x with N0 -> 0 | Npos p -> int_of_pos p

let sx_int = function A a -> int_of_string a | L _ -> failwith "sx_int"
let sx_list = function L l -> l | A _ -> failwith "sx_list"
let sx_str (x : sx) : n list = List.map (fun a -> n_of_int (sx_int a)) (sx_list x)
let str_sx (s : n list) : sx = L (List.map (fun c -> A (string_of_int (int_of_n c))) s)
let nat_sx (x : nat) : sx = A (string_of_int (int_of_nat x))
let sx_nat (x : sx) : nat = nat_of_int (sx_int x)
let bool_sx b = A (if b then "1" else "0")
let sx_bool x = (sx_int x) <> 0

let main_loop (f : sx -> sx) : unit =
  try
    while true do
      let line = input_line stdin in
      let out = (try sx_to_string (f (parse_sx line)) with
                 | Stack_overflow -> "(ERR stack)"
                 | Failure m -> "(ERR " ^ (String.map (fun c -> if c = ' ' || c = '(' || c = ')' then '_' else c) m) ^ ")") in
      print_string out; print_newline ()
    done
  with End_of_file -> ()
