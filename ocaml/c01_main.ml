(* C01 driver.  Input (one per line):
     ((ph modern defs_allowed (required...) (unique...)) (text code points) (forest))
   forest node = (T org short_fold resolved (res_issues) ext_len sbase long_fold takes_value ext_allowed
                    require_child deprecated tag_group top_level unit_class value_class
                    units values units_d values_d def_units def_contents def_known def_takes_value)
               | (G (nodes...))
   issue = (K_x) | (K_x O_y);  res = (ok (issues...)) | (exn Name)
   Output: (ok ((K O|- (code) E|W)...) basic_has_error shape_agrees) | (exn Name) *)
let kind_of_string = function
  | "K_CHARACTER_INVALID" -> K_CHARACTER_INVALID
  | "K_TILDES_UNSUPPORTED" -> K_TILDES_UNSUPPORTED
  | "K_PARENTHESES_MISMATCH" -> K_PARENTHESES_MISMATCH
  | "K_TAG_EMPTY" -> K_TAG_EMPTY
  | "K_COMMA_MISSING" -> K_COMMA_MISSING
  | "K_NODE_NAME_EMPTY" -> K_NODE_NAME_EMPTY
  | "K_TAG_NAMESPACE_PREFIX_INVALID" -> K_TAG_NAMESPACE_PREFIX_INVALID
  | "K_INVALID_TAG_CHARACTER" -> K_INVALID_TAG_CHARACTER
  | "K_HED_LIBRARY_UNMATCHED" -> K_HED_LIBRARY_UNMATCHED
  | "K_NO_VALID_TAG_FOUND" -> K_NO_VALID_TAG_FOUND
  | "K_INVALID_PARENT_NODE" -> K_INVALID_PARENT_NODE
  | "K_TAG_EXTENSION_INVALID" -> K_TAG_EXTENSION_INVALID
  | "K_TAG_EXTENDED" -> K_TAG_EXTENDED
  | "K_TAG_REQUIRES_CHILD" -> K_TAG_REQUIRES_CHILD
  | "K_ELEMENT_DEPRECATED" -> K_ELEMENT_DEPRECATED
  | "K_STYLE_WARNING" -> K_STYLE_WARNING
  | "K_UNITS_INVALID" -> K_UNITS_INVALID
  | "K_UNITS_MISSING" -> K_UNITS_MISSING
  | "K_INVALID_VALUE_CLASS_VALUE" -> K_INVALID_VALUE_CLASS_VALUE
  | "K_INVALID_VALUE_CLASS_CHARACTER" -> K_INVALID_VALUE_CLASS_CHARACTER
  | "K_CURLY_BRACE_UNSUPPORTED_HERE" -> K_CURLY_BRACE_UNSUPPORTED_HERE
  | "K_BAD_DEFINITION_LOCATION" -> K_BAD_DEFINITION_LOCATION
  | "K_HED_DEF_UNMATCHED" -> K_HED_DEF_UNMATCHED
  | "K_HED_DEF_VALUE_MISSING" -> K_HED_DEF_VALUE_MISSING
  | "K_HED_DEF_VALUE_EXTRA" -> K_HED_DEF_VALUE_EXTRA
  | "K_HED_DEF_EXPAND_UNMATCHED" -> K_HED_DEF_EXPAND_UNMATCHED
  | "K_HED_DEF_EXPAND_VALUE_MISSING" -> K_HED_DEF_EXPAND_VALUE_MISSING
  | "K_HED_DEF_EXPAND_VALUE_EXTRA" -> K_HED_DEF_EXPAND_VALUE_EXTRA
  | "K_HED_DEF_EXPAND_INVALID" -> K_HED_DEF_EXPAND_INVALID
  | "K_REQUIRED_TAG_MISSING" -> K_REQUIRED_TAG_MISSING
  | "K_TAG_NOT_UNIQUE" -> K_TAG_NOT_UNIQUE
  | "K_HED_GROUP_EMPTY" -> K_HED_GROUP_EMPTY
  | "K_HED_TAG_GROUP_TAG" -> K_HED_TAG_GROUP_TAG
  | "K_HED_TOP_LEVEL_TAG" -> K_HED_TOP_LEVEL_TAG
  | "K_HED_MULTIPLE_TOP_TAGS" -> K_HED_MULTIPLE_TOP_TAGS
  | "K_HED_TAG_REPEATED" -> K_HED_TAG_REPEATED
  | "K_HED_TAG_REPEATED_GROUP" -> K_HED_TAG_REPEATED_GROUP
  | "K_DURATION_HAS_OTHER_TAGS" -> K_DURATION_HAS_OTHER_TAGS
  | "K_DURATION_WRONG_NUMBER_GROUPS" -> K_DURATION_WRONG_NUMBER_GROUPS
  | "K_ONSET_NO_DEF_TAG_FOUND" -> K_ONSET_NO_DEF_TAG_FOUND
  | "K_ONSET_TOO_MANY_DEFS" -> K_ONSET_TOO_MANY_DEFS
  | "K_ONSET_WRONG_NUMBER_GROUPS" -> K_ONSET_WRONG_NUMBER_GROUPS
  | "K_ONSET_TAG_OUTSIDE_OF_GROUP" -> K_ONSET_TAG_OUTSIDE_OF_GROUP
  | "K_ONSET_DEF_UNMATCHED" -> K_ONSET_DEF_UNMATCHED
  | "K_ONSET_PLACEHOLDER_WRONG" -> K_ONSET_PLACEHOLDER_WRONG
  | s -> failwith ("kind:" ^ s)
let string_of_kind = function
  | K_CHARACTER_INVALID -> "K_CHARACTER_INVALID"
  | K_TILDES_UNSUPPORTED -> "K_TILDES_UNSUPPORTED"
  | K_PARENTHESES_MISMATCH -> "K_PARENTHESES_MISMATCH"
  | K_TAG_EMPTY -> "K_TAG_EMPTY"
  | K_COMMA_MISSING -> "K_COMMA_MISSING"
  | K_NODE_NAME_EMPTY -> "K_NODE_NAME_EMPTY"
  | K_TAG_NAMESPACE_PREFIX_INVALID -> "K_TAG_NAMESPACE_PREFIX_INVALID"
  | K_INVALID_TAG_CHARACTER -> "K_INVALID_TAG_CHARACTER"
  | K_HED_LIBRARY_UNMATCHED -> "K_HED_LIBRARY_UNMATCHED"
  | K_NO_VALID_TAG_FOUND -> "K_NO_VALID_TAG_FOUND"
  | K_INVALID_PARENT_NODE -> "K_INVALID_PARENT_NODE"
  | K_TAG_EXTENSION_INVALID -> "K_TAG_EXTENSION_INVALID"
  | K_TAG_EXTENDED -> "K_TAG_EXTENDED"
  | K_TAG_REQUIRES_CHILD -> "K_TAG_REQUIRES_CHILD"
  | K_ELEMENT_DEPRECATED -> "K_ELEMENT_DEPRECATED"
  | K_STYLE_WARNING -> "K_STYLE_WARNING"
  | K_UNITS_INVALID -> "K_UNITS_INVALID"
  | K_UNITS_MISSING -> "K_UNITS_MISSING"
  | K_INVALID_VALUE_CLASS_VALUE -> "K_INVALID_VALUE_CLASS_VALUE"
  | K_INVALID_VALUE_CLASS_CHARACTER -> "K_INVALID_VALUE_CLASS_CHARACTER"
  | K_CURLY_BRACE_UNSUPPORTED_HERE -> "K_CURLY_BRACE_UNSUPPORTED_HERE"
  | K_BAD_DEFINITION_LOCATION -> "K_BAD_DEFINITION_LOCATION"
  | K_HED_DEF_UNMATCHED -> "K_HED_DEF_UNMATCHED"
  | K_HED_DEF_VALUE_MISSING -> "K_HED_DEF_VALUE_MISSING"
  | K_HED_DEF_VALUE_EXTRA -> "K_HED_DEF_VALUE_EXTRA"
  | K_HED_DEF_EXPAND_UNMATCHED -> "K_HED_DEF_EXPAND_UNMATCHED"
  | K_HED_DEF_EXPAND_VALUE_MISSING -> "K_HED_DEF_EXPAND_VALUE_MISSING"
  | K_HED_DEF_EXPAND_VALUE_EXTRA -> "K_HED_DEF_EXPAND_VALUE_EXTRA"
  | K_HED_DEF_EXPAND_INVALID -> "K_HED_DEF_EXPAND_INVALID"
  | K_REQUIRED_TAG_MISSING -> "K_REQUIRED_TAG_MISSING"
  | K_TAG_NOT_UNIQUE -> "K_TAG_NOT_UNIQUE"
  | K_HED_GROUP_EMPTY -> "K_HED_GROUP_EMPTY"
  | K_HED_TAG_GROUP_TAG -> "K_HED_TAG_GROUP_TAG"
  | K_HED_TOP_LEVEL_TAG -> "K_HED_TOP_LEVEL_TAG"
  | K_HED_MULTIPLE_TOP_TAGS -> "K_HED_MULTIPLE_TOP_TAGS"
  | K_HED_TAG_REPEATED -> "K_HED_TAG_REPEATED"
  | K_HED_TAG_REPEATED_GROUP -> "K_HED_TAG_REPEATED_GROUP"
  | K_DURATION_HAS_OTHER_TAGS -> "K_DURATION_HAS_OTHER_TAGS"
  | K_DURATION_WRONG_NUMBER_GROUPS -> "K_DURATION_WRONG_NUMBER_GROUPS"
  | K_ONSET_NO_DEF_TAG_FOUND -> "K_ONSET_NO_DEF_TAG_FOUND"
  | K_ONSET_TOO_MANY_DEFS -> "K_ONSET_TOO_MANY_DEFS"
  | K_ONSET_WRONG_NUMBER_GROUPS -> "K_ONSET_WRONG_NUMBER_GROUPS"
  | K_ONSET_TAG_OUTSIDE_OF_GROUP -> "K_ONSET_TAG_OUTSIDE_OF_GROUP"
  | K_ONSET_DEF_UNMATCHED -> "K_ONSET_DEF_UNMATCHED"
  | K_ONSET_PLACEHOLDER_WRONG -> "K_ONSET_PLACEHOLDER_WRONG"
let ocode_of_string = function
  | "O_PLACEHOLDER_INVALID" -> O_PLACEHOLDER_INVALID
  | "O_DEFINITION_INVALID" -> O_DEFINITION_INVALID
  | "O_TEMPORAL_TAG_ERROR" -> O_TEMPORAL_TAG_ERROR
  | "O_DEF_INVALID" -> O_DEF_INVALID
  | "O_DEF_EXPAND_INVALID" -> O_DEF_EXPAND_INVALID
  | s -> failwith ("ocode:" ^ s)
let string_of_ocode = function
  | O_PLACEHOLDER_INVALID -> "O_PLACEHOLDER_INVALID"
  | O_DEFINITION_INVALID -> "O_DEFINITION_INVALID"
  | O_TEMPORAL_TAG_ERROR -> "O_TEMPORAL_TAG_ERROR"
  | O_DEF_INVALID -> "O_DEF_INVALID"
  | O_DEF_EXPAND_INVALID -> "O_DEF_EXPAND_INVALID"

let exn_of_string = function
  | "TypeError" -> TypeError | "KeyError" -> KeyError | "AttributeError" -> AttributeError
  | "ValueError" -> ValueError | "IndexError" -> IndexError | "RecursionError" -> RecursionError
  | "HedFileError" -> HedFileError | "CacheError" -> CacheError | _ -> Unmodelled
let exn_sx (e : exn) : sx = A (match e with
  | TypeError -> "TypeError" | KeyError -> "KeyError" | AttributeError -> "AttributeError"
  | ValueError -> "ValueError" | IndexError -> "IndexError" | RecursionError -> "RecursionError"
  | HedFileError -> "HedFileError" | CacheError -> "CacheError" | Unmodelled -> "Unmodelled")

let sx_atom = function A a -> a | L _ -> failwith "sx_atom"
let sx_issue (x : sx) : issue = match x with
  | L [A k] -> { ik = kind_of_string k; io = None }
  | L [A k; A o] -> { ik = kind_of_string k; io = Some (ocode_of_string o) }
  | _ -> failwith "sx_issue"
let sx_issues (x : sx) : issue list = List.map sx_issue (sx_list x)
let sx_res (x : sx) : issue list res = match x with
  | L [A "ok"; l] -> Ok (sx_issues l)
  | L [A "exn"; A e] -> Exn (exn_of_string e)
  | _ -> failwith "sx_res"

let rec sx_node (x : sx) : fnode = match x with
  | L [A "G"; L ch] -> FGroup (List.map sx_node ch)
  | L [A "T"; org; orgf; resolved; resi; extlen; sbase; longf; tv; ea; rc; dep; tg; tl; uc; vc;
       units; values; unitsd; valuesd; defu; defc; dk; dtv] ->
    FTag { tf_org = sx_str org; tf_short_fold = sx_str orgf; tf_resolved = sx_bool resolved;
           tf_res_issues = sx_issues resi; tf_ext_len = sx_nat extlen; tf_sbase = sx_str sbase;
           tf_long_fold = sx_str longf; tf_takes_value = sx_bool tv; tf_ext_allowed = sx_bool ea;
           tf_require_child = sx_bool rc; tf_deprecated = sx_bool dep; tf_tag_group = sx_bool tg;
           tf_top_level = sx_bool tl; tf_unit_class = sx_bool uc; tf_value_class = sx_bool vc;
           tf_units = sx_res units; tf_values = sx_res values; tf_units_d = sx_res unitsd;
           tf_values_d = sx_res valuesd; tf_def_units = sx_res defu; tf_def_contents = sx_res defc;
           tf_def_known = sx_bool dk; tf_def_takes_value = sx_bool dtv }
  | _ -> failwith "sx_node"

let rec shape_of_f (n : fnode) : shape = match n with
  | FTag t -> STag t.tf_org
  | FGroup ch -> SGroup (List.map shape_of_f ch)

let issue_sx (i : issue) : sx =
  L [A (string_of_kind i.ik); A (match i.io with Some o -> string_of_ocode o | None -> "-");
     str_sx (icode i); A (match isev i with Error -> "E" | Warning -> "W")]

let sx_cfg (x : sx) : config = match x with
  | L [ph; modern; da; req; uniq] ->
    { c_ph = sx_bool ph; c_modern = sx_bool modern; c_defs_allowed = sx_bool da;
      c_required = List.map sx_str (sx_list req); c_unique = List.map sx_str (sx_list uniq) }
  | _ -> failwith "cfg"

let res_sx (r : issue list res) : sx = match r with
  | Exn e -> L [A "exn"; exn_sx e]
  | Ok l -> L [A "ok"; L (List.map issue_sx l)]

(* further commands:
     (V takes_value ((word_ok (curly...))...))      -> (ok (issues))      value_class_issues
     (S (cfg text forest) ...)                      -> ((ok|exn ...) ...)  vrun on ONE validator state *)
let () = main_loop (fun x ->
  ignore (force_types O N0);
  match x with
  | L [A "V"; tv; L cls] ->
    let cv = List.map (function
      | L [w; L chars] -> { cv_word = sx_bool w; cv_chars = List.map sx_bool chars }
      | _ -> failwith "class_verdict") cls in
    L [A "ok"; L (List.map issue_sx (value_class_issues (sx_bool tv) cv))]
  | L (A "S" :: steps) ->
    let parsed = List.map (function
      | L [cfg; text; L forest] -> (sx_cfg cfg, (sx_str text, List.map sx_node forest))
      | _ -> failwith "step") steps in
    (match parsed with
     | [] -> L []
     | (cfg, _) :: _ ->
       let (_, rs) = vrun cfg (List.map snd parsed) in
       L (List.map res_sx rs))
  | L [cfgx; text; L forest] ->
    let cfg = sx_cfg cfgx in
    let s = sx_str text in
    let f = List.map sx_node forest in
    let agree = (match hedstring_init s with
                 | Ok tr -> shapes_eqb (List.map (shape_of s) tr) (List.map shape_of_f f)
                 | Exn _ -> false) in
    let basic_err = (match run_basic_checks cfg s f with Ok b -> has_error b | Exn _ -> false) in
    (match validate cfg s f with
     | Exn e -> L [A "exn"; exn_sx e]
     | Ok l -> L [A "ok"; L (List.map issue_sx l); bool_sx basic_err; bool_sx agree])
  | _ -> failwith "input")
