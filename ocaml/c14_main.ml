(* C14 driver.  One s-expression per line:
     (env KNOWN RANGES PLURALS LOADABLE)   set the environment            -> (ok)
     (fixed F1 F2)                          select the repairs (0|1 each)  -> (ok)   default: both
     (base SCHEMA)                          set the base schema            -> (ok)
     (check EDIT ...)                       base with the edits applied    -> result
     (full SCHEMA)                          check a schema given in full   -> result
     (float STR) / (int STR)                number parsers                 -> (le0|pos|none) / (int n|none)
   result = (ok (ISSUE ...) (ISSUE ...)) with warnings on / off, or (exn Name) / (ok ... ) (exn ...) per mode
   ISSUE  = ((code cps) E|W sec|- (tag cps)|- (attr cps)|-)
   STR    = (cp ...)      ENTRY = (STR ATTR ...)   ATTR = (STR) | (STR STR)
   SCHEMA = (ver lib withstd unmerged(0|1) PROPS ATTRS MODS UCLASSES VCLASSES TAGS), UCLASS = (ENTRY ENTRY ...)
   EDIT   = (set SEC idx ELEM) | (ins SEC idx ELEM) | (del SEC idx) | (hdr ver lib withstd unmerged) *)
let exn_sx (e : exn) : sx = A (match e with
  | TypeError -> "TypeError" | KeyError -> "KeyError" | AttributeError -> "AttributeError"
  | ValueError -> "ValueError" | IndexError -> "IndexError" | RecursionError -> "RecursionError"
  | HedFileError -> "HedFileError" | CacheError -> "CacheError" | Unmodelled -> "Unmodelled")

let sx_attr (x : sx) : (n list * aval) = match sx_list x with
  | [k] -> (sx_str k, VFlag)
  | [k; v] -> (sx_str k, VStr (sx_str v))
  | _ -> failwith "attr"
let sx_entry (x : sx) : rentry = match sx_list x with
  | nm :: attrs -> { re_name = sx_str nm; re_attrs = List.map sx_attr attrs }
  | [] -> failwith "entry"
let sx_uclass (x : sx) : ruclass = match sx_list x with
  | e :: us -> { uc_entry = sx_entry e; uc_units = List.map sx_entry us }
  | [] -> failwith "uclass"
let sx_schema (x : sx) : rschema = match sx_list x with
  | [v; l; w; u; p; a; m; uc; vc; t] ->
    { rs_version = sx_str v; rs_library = sx_str l; rs_with_standard = sx_str w; rs_unmerged = sx_bool u;
      rs_props = List.map sx_entry (sx_list p); rs_attrs = List.map sx_entry (sx_list a);
      rs_mods = List.map sx_entry (sx_list m); rs_uclasses = List.map sx_uclass (sx_list uc);
      rs_vclasses = List.map sx_entry (sx_list vc); rs_tags = List.map sx_entry (sx_list t) }
  | _ -> failwith "schema"

let rec z_of_int (i : int) : z = if i = 0 then Z0 else if i > 0 then Zpos (pos_of_int i) else Zneg (pos_of_int (-i))
let rec int_of_z (x : z) : int = match x with Z0 -> 0 | Zpos p -> int_of_pos p | Zneg p -> - (int_of_pos p)

let sec_sx (s : section) : sx = A (match s with
  | SecTags -> "tags" | SecUnitClasses -> "unitClasses" | SecUnits -> "units" | SecUnitModifiers -> "unitModifiers"
  | SecValueClasses -> "valueClasses" | SecAttributes -> "attributes" | SecProperties -> "properties")

let opt_sx f = function None -> A "-" | Some v -> f v
let issue_sx (i : issue) : sx =
  L [str_sx (i_code i); A (if is_error i then "E" else "W"); opt_sx sec_sx i.i_sec; opt_sx str_sx i.i_tag;
     opt_sx str_sx i.i_attr]
let res_sx (r : issue list res) : sx = match r with
  | Ok l -> L [A "ok"; L (List.map issue_sx l)]
  | Exn e -> L [A "exn"; exn_sx e]

let cur_env : env ref = ref { env_known = []; env_ranges = []; env_plural = []; env_loadable = [] }
let cur_base : rschema option ref = ref None
let cur_fx : fixes ref = ref fixed_all

let set_nth l i v = List.mapi (fun j x -> if j = i then v else x) l
let ins_nth l i v =
  let rec go j = function
    | rest when j = i -> v :: rest
    | [] -> [v]
    | x :: r -> x :: go (j + 1) r in go 0 l
let del_nth l i = List.filteri (fun j _ -> j <> i) l

let edit_list (op : string) (l : 'a list) (i : int) (v : 'a option) : 'a list =
  match op, v with
  | "set", Some v -> set_nth l i v
  | "ins", Some v -> ins_nth l i v
  | "del", _ -> del_nth l i
  | _ -> failwith "edit"

let apply_edit (s : rschema) (e : sx) : rschema = match sx_list e with
  | [A "hdr"; v; l; w; u] ->
    { s with rs_version = sx_str v; rs_library = sx_str l; rs_with_standard = sx_str w; rs_unmerged = sx_bool u }
  | A op :: A sec :: idx :: rest ->
    let i = sx_int idx in
    let el f = match rest with [x] -> Some (f x) | _ -> None in
    (match sec with
     | "props" -> { s with rs_props = edit_list op s.rs_props i (el sx_entry) }
     | "attrs" -> { s with rs_attrs = edit_list op s.rs_attrs i (el sx_entry) }
     | "mods" -> { s with rs_mods = edit_list op s.rs_mods i (el sx_entry) }
     | "uclasses" -> { s with rs_uclasses = edit_list op s.rs_uclasses i (el sx_uclass) }
     | "vclasses" -> { s with rs_vclasses = edit_list op s.rs_vclasses i (el sx_entry) }
     | "tags" -> { s with rs_tags = edit_list op s.rs_tags i (el sx_entry) }
     | _ -> failwith "section")
  | _ -> failwith "edit-shape"

(* check_compliance e w s = bind (load e s) (check_loaded e w)  (Model/Compliance.v); the schema is loaded once
   for the two warning modes; every 16th case is also run through check_compliance itself and must agree *)
let counter = ref 0
let run (s : rschema) : sx =
  incr counter;
  let both = match load !cur_env s with
    | Exn e -> (Exn e, Exn e)
    | Ok l -> (check_loaded !cur_fx !cur_env true l, check_loaded !cur_fx !cur_env false l) in
  if !counter mod 16 = 1 then begin
    if check_compliance !cur_fx !cur_env true s <> fst both || check_compliance !cur_fx !cur_env false s <> snd both
    then failwith "check_compliance-differs-from-load-then-check_loaded"
  end;
  L [res_sx (fst both); res_sx (snd both)]

let () = main_loop (fun x ->
  ignore (force_types O N0);
  match sx_list x with
  | [A "env"; known; ranges; plurals; loadable] ->
    cur_env := {
      env_known = List.map (fun p -> match sx_list p with
          | [l; vs] -> (sx_str l, List.map sx_str (sx_list vs)) | _ -> failwith "known") (sx_list known);
      env_ranges = List.map (fun p -> match sx_list p with
          | [l; a; b] -> (sx_str l, (z_of_int (sx_int a), z_of_int (sx_int b))) | _ -> failwith "range") (sx_list ranges);
      env_plural = List.map (fun p -> match sx_list p with
          | [a; b] -> (sx_str a, sx_str b) | _ -> failwith "plural") (sx_list plurals);
      env_loadable = List.map (fun p -> match sx_list p with
          | [nm; sc] -> (sx_str nm, sx_schema sc) | _ -> failwith "loadable") (sx_list loadable) };
    L [A "ok"]
  | [A "fixed"; f1; f2] -> cur_fx := { fx_skip_undeclared = sx_bool f1; fx_own_library = sx_bool f2 }; L [A "ok"]
  | [A "base"; sc] -> cur_base := Some (sx_schema sc); L [A "ok"]
  | A "check" :: edits ->
    (match !cur_base with
     | None -> failwith "no-base"
     | Some b -> run (List.fold_left apply_edit b edits))
  | [A "full"; sc] -> run (sx_schema sc)
  | [A "float"; s] ->
    (match parse_float (sx_str s) with
     | None -> L [A "none"]
     | Some f -> L [A (if float_le_zero f then "le0" else "pos")])
  | [A "int"; s] ->
    (match parse_int (sx_str s) with
     | None -> L [A "none"]
     | Some z -> L [A "int"; A (string_of_int (int_of_z z))])
  | _ -> failwith "command")
