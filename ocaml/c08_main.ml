(* C08 driver.  JSON encoding: N | (B 0/1) | (I n) | (S (cps)) | (A (items)) | (O (((cps) v) ...)).
   Input lines:
     (Q fixed json)        -> (ok|exn.. is ignored) list of string-level queries the model makes:
                              ((ds...) (B s) (C s) (H s) (F s (refs) (combo)) (D) ...)
     (R fixed json table)  -> (ok (((code) iserr) ...)) | (exn Name)
                              table entries: (D issues) (B s issues) (C s n) (H s n) (F s refs combo issues)
     (X refs s) (X braces s) (X refchar c) (X detect basic json) (X structok json)   helper functions *)
let exn_sx (e : exn) : sx = A (match e with
  | TypeError -> "TypeError" | KeyError -> "KeyError" | AttributeError -> "AttributeError"
  | ValueError -> "ValueError" | IndexError -> "IndexError" | RecursionError -> "RecursionError"
  | HedFileError -> "HedFileError" | CacheError -> "CacheError" | Unmodelled -> "Unmodelled")

let rec sx_json (x : sx) : json = match x with
  | A "N" -> JNull
  | L [A "B"; b] -> JBool (sx_bool b)
  | L [A "I"; n] -> JNum (n_of_int (sx_int n))
  | L [A "S"; s] -> JStr (sx_str s)
  | L [A "A"; L l] -> JArr (List.map sx_json l)
  | L [A "O"; L l] -> JObj (List.map (fun kv -> match kv with
                                        | L [k; v] -> (sx_str k, sx_json v)
                                        | _ -> failwith "sx_json: pair") l)
  | _ -> failwith "sx_json"

let strs_sx (l : n list list) : sx = L (List.map str_sx l)
let sx_strs (x : sx) : n list list = List.map sx_str (sx_list x)
let issue_sx ((c, e) : n list * bool) : sx = L [str_sx c; bool_sx e]
let sx_issue (x : sx) : n list * bool = match x with
  | L [c; e] -> (sx_str c, sx_bool e) | _ -> failwith "sx_issue"
let sx_issues (x : sx) = List.map sx_issue (sx_list x)

let result_sx r = match r with
  | Ok l -> L [A "ok"; L (List.map issue_sx l)]
  | Exn e -> L [A "exn"; exn_sx e]

let key (x : sx) : string = sx_to_string x

let () = main_loop (fun x ->
  ignore (force_types O N0);
  match x with
  | L [A "Q"; fx; j] ->
    let log = ref [] and dss = ref None in
    let note ds q = (match !dss with None -> dss := Some ds | Some _ -> ()); log := q :: !log in
    let v_defs ds = note ds (L [A "D"]); [] in
    let v_basic ds s = note ds (L [A "B"; str_sx s]); [] in
    let v_defcount s = log := L [A "C"; str_sx s] :: !log; O in
    let v_hashes ds s = note ds (L [A "H"; str_sx s]); O in
    let v_full ds s refs combo = note ds (L [A "F"; str_sx s; strs_sx refs; strs_sx combo]); [] in
    let _ = validate_sidecar (sx_bool fx) v_defs v_basic v_defcount v_hashes v_full (sx_json j) in
    let ds = match !dss with None -> [] | Some d -> d in
    L (strs_sx ds :: List.rev !log)
  | L [A "R"; fx; j; L table] ->
    let tb = Hashtbl.create 64 in
    List.iter (fun e -> match e with
      | L [A "D"; iss] -> Hashtbl.replace tb "D" iss
      | L [A "B"; s; iss] -> Hashtbl.replace tb (key (L [A "B"; s])) iss
      | L [A "C"; s; n] -> Hashtbl.replace tb (key (L [A "C"; s])) n
      | L [A "H"; s; n] -> Hashtbl.replace tb (key (L [A "H"; s])) n
      | L [A "F"; s; r; c; iss] -> Hashtbl.replace tb (key (L [A "F"; s; r; c])) iss
      | _ -> failwith "table entry") table;
    let get k = match Hashtbl.find_opt tb k with Some v -> v | None -> failwith ("missing_answer_" ^ k) in
    let v_defs _ = sx_issues (get "D") in
    let v_basic _ s = sx_issues (get (key (L [A "B"; str_sx s]))) in
    let v_defcount s = sx_nat (get (key (L [A "C"; str_sx s]))) in
    let v_hashes _ s = sx_nat (get (key (L [A "H"; str_sx s]))) in
    let v_full _ s refs combo = sx_issues (get (key (L [A "F"; str_sx s; strs_sx refs; strs_sx combo]))) in
    result_sx (validate_sidecar (sx_bool fx) v_defs v_basic v_defcount v_hashes v_full (sx_json j))
  | L [A "X"; A "refs"; s] -> strs_sx (find_refs (sx_str s))
  | L [A "X"; A "braces"; s] ->
    let s = sx_str s in
    L [L (List.map nat_sx (find_non_matching_braces s)); bool_sx (braces_ok s)]
  | L [A "X"; A "refchar"; c] -> bool_sx (is_ref_char (n_of_int (sx_int c)))
  | L [A "X"; A "detect"; b; j] ->
    (match detect_column_type (sx_bool b) (sx_json j) with
     | None -> A "None" | Some CIgnore -> A "Ignore" | Some CCategorical -> A "Categorical"
     | Some CValue -> A "Value")
  | L [A "X"; A "structok"; j] ->
    (match sx_json j with
     | JObj kvs -> L [bool_sx (struct_ok kvs); bool_sx (struct_ok_but_hash kvs)]
     | _ -> A "notobj")
  | L [A "X"; A "codes"] ->
    L (List.map (fun k -> L [str_sx (kind_code k); bool_sx (kind_is_error k)])
         [K_BLANK_HED_STRING; K_WRONG_HED_DATA_TYPE; K_INVALID_POUND_SIGNS_VALUE;
          K_INVALID_POUND_SIGNS_CATEGORY; K_UNKNOWN_COLUMN_TYPE; K_SIDECAR_HED_USED;
          K_SIDECAR_HED_USED_COLUMN; K_SIDECAR_NA_USED; K_INVALID_COLUMN_REF; K_SELF_COLUMN_REF;
          K_NESTED_COLUMN_REF; K_MALFORMED_COLUMN_REF; K_BAD_DEFINITION_LOCATION])
  | _ -> failwith "bad_command")
