(* C03 driver.
   (S fixed (ns) (name) (name) ...)  loads a schema ((s ...) = the same, answer just (ok));
        fixed = 1: the repaired code, 0: the code before the two repairs; schema namespace, names in registration order;
        answer: (ok wf table names dups) with table = list of ((key) (entry-name)), or (exn E)
   (Q (text))  one tag text against the current schema;
        answer: (F (entry-name) (remainder) (ns) (short) (long) (base) (short_base) (org_base) (extension) vc)
            or  (N err (ns) (short) (long) (base) (short_base) (org_base) (extension)) *)
let exn_sx (e : exn) : sx = A (match e with
  | TypeError -> "TypeError" | KeyError -> "KeyError" | AttributeError -> "AttributeError"
  | ValueError -> "ValueError" | IndexError -> "IndexError" | RecursionError -> "RecursionError"
  | HedFileError -> "HedFileError" | CacheError -> "CacheError" | Unmodelled -> "Unmodelled")

(* strings are answered as ONE atom: 's' followed by the code points joined by '.' (cheap to parse) *)
let str_sx (s : n list) : sx = A ("s" ^ String.concat "." (List.map (fun c -> string_of_int (int_of_n c)) s))

let cur_table : table option ref = ref None
let cur_ns : str ref = ref []
let cur_fx : fixes ref = ref repaired

let forms_sx (h : hedtag) : sx list =
  [str_sx h.ht_ns; str_sx (short_tag h); str_sx (long_tag h); str_sx (base_tag h);
   str_sx (short_base_tag h); str_sx (org_base_tag h); str_sx (extension h)]

let () = main_loop (fun x ->
  ignore (force_types O N0);
  match x with
  | L (A "S" :: fixed :: ns :: names) ->
    let names = List.map sx_str names in
    cur_ns := sx_str ns;
    cur_fx := (if sx_bool fixed then repaired else unrepaired);
    (match build_table py_fold names with
     | Exn e -> cur_table := None; L [A "exn"; exn_sx e]
     | Ok t ->
       cur_table := Some t;
       L [A "ok"; bool_sx (wFschema py_fold names);
          L (List.map (fun (k, e) -> L [str_sx k; str_sx e.e_name]) t.long_form_tags);
          L (List.map str_sx t.all_names);
          L (List.map (fun (k, n) -> L [str_sx k; str_sx n]) t.duplicate_names)])
  | L (A "s" :: fixed :: ns :: names) ->
    (* load without reporting the table *)
    let names = List.map sx_str names in
    cur_ns := sx_str ns;
    cur_fx := (if sx_bool fixed then repaired else unrepaired);
    (match build_table py_fold names with
     | Exn e -> cur_table := None; L [A "exn"; exn_sx e]
     | Ok t -> cur_table := Some t; L [A "ok"])
  | L [A "Q"; text] ->
    (match !cur_table with
     | None -> L [A "ERR"; A "no-schema"]
     | Some t ->
       let h = hedtag_init py_fold !cur_fx t !cur_ns (sx_str text) in
       (match h.ht_entry with
        | Some e ->
          let vc = (match takes_value_child py_fold t e with Some _ -> A "1" | None -> A "0") in
          L ([A "F"; str_sx e.e_name; str_sx h.ht_ext] @ forms_sx h @ [vc])
        | None ->
          let err = (match find_tag_entry py_fold !cur_fx t !cur_ns h.ht_text h.ht_ns with
                     | NotFound LibraryUnmatched -> "LibraryUnmatched"
                     | NotFound NoValidTagFound -> "NoValidTagFound"
                     | NotFound InvalidParentNode -> "InvalidParentNode"
                     | Found (_, _) -> "found?") in
          L ([A "N"; A err] @ forms_sx h)))
  | _ -> L [A "ERR"; A "bad-command"])
