(* C17 driver.  input  = ((f f f f f f f) <json ops> (<table> ...))
     json  = N | (B 0|1) | (I int) | (S (cps)) | (A json...) | (O ((cps) json)...)
     table = ((cols (cps)...) (rows ((cell...) ...)))   cell = (s (cps)) | (n int) | na
   output = (unmodelled) | (rejected) | (ctor Exn)
          | (ran ((changed order)...) (result...))   result = (ok (cols) (rows)) | (exn Name) *)
let exn_name (e : exn) : string = match e with
  | TypeError -> "TypeError" | KeyError -> "KeyError" | AttributeError -> "AttributeError"
  | ValueError -> "ValueError" | IndexError -> "IndexError" | RecursionError -> "RecursionError"
  | HedFileError -> "HedFileError" | CacheError -> "CacheError" | Unmodelled -> "Unmodelled"

let z_of_int (i : int) : z = if i = 0 then Z0 else if i > 0 then Zpos (pos_of_int i) else Zneg (pos_of_int (- i))
let int_of_z (x : z) : int = match x with Z0 -> 0 | Zpos p -> int_of_pos p | Zneg p -> - (int_of_pos p)

let rec json_of_sx (x : sx) : json = match x with
  | A "N" -> JNull
  | L [A "B"; b] -> JBool (sx_bool b)
  | L [A "I"; i] -> JNum (z_of_int (sx_int i))
  | L [A "S"; s] -> JStr (sx_str s)
  | L (A "A" :: items) -> JArr (List.map json_of_sx items)
  | L (A "O" :: kvs) -> JObj (List.map (fun kv -> match kv with
      | L [k; v] -> (sx_str k, json_of_sx v) | _ -> failwith "json kv") kvs)
  | _ -> failwith "json"

let cell_of_sx (x : sx) : cell = match x with
  | A "na" -> CNa
  | L [A "s"; s] -> CStr (sx_str s)
  | L [A "n"; i] -> CNum (z_of_int (sx_int i))
  | _ -> failwith "cell"
let cell_sx (c : cell) : sx = match c with
  | CNa -> A "na" | CStr s -> L [A "s"; str_sx s] | CNum z -> L [A "n"; A (string_of_int (int_of_z z))]

let table_of_sx (x : sx) : table = match x with
  | L [L cs; L rs] -> { cols = List.map sx_str cs; rows = List.map (fun r -> List.map cell_of_sx (sx_list r)) rs }
  | _ -> failwith "table"
let table_sx (t : table) : sx =
  L [L (List.map str_sx t.cols); L (List.map (fun r -> L (List.map cell_sx r)) t.rows)]

let () = main_loop (fun x ->
  ignore (force_types O N0);
  match x with
  | L (L [f1; f2; f3; f4; f5; f6; f7] :: ops :: L ts :: rest) ->
    let fx = { fx_reorder = sx_bool f1; fx_factor = sx_bool f2; fx_match = sx_bool f3;
               fx_copy = sx_bool f4; fx_gaps = sx_bool f5; fx_disjoint = sx_bool f6; fx_nan = sx_bool f7 } in
    let ops = json_of_sx ops in
    (* a 4th element "file": the tables are raw text as read from a tsv file (cells all (s cps)) *)
    let raw_table x = (match x with
      | L [L cs; L rs] ->
        read_table (List.map sx_str cs)
          (List.map (fun r -> List.map (fun c -> match c with L [A "s"; t] -> sx_str t | _ -> failwith "rawcell") (sx_list r)) rs)
      | _ -> failwith "rawtable") in
    let ts = (match rest with [A "file"] -> List.map raw_table ts | _ -> List.map table_of_sx ts) in
    let before = (match parse_operations ops with Ok sts -> sts | Exn _ -> []) in
    (match remodel fx ops ts with
     | Exn e -> L [A "unmodelled"; A (exn_name e)]
     | Ok Rejected -> L [A "rejected"]
     | Ok (CtorFailed e) -> L [A "ctor"; A (exn_name e)]
     | Ok (Ran (sts, outs)) ->
       let states = List.map2 (fun a b -> L [bool_sx (a <> b); L (List.map str_sx (observed_order b))]) before sts in
       L [A "ran"; L states;
          L (List.map (fun o -> match o with
              | Ok t -> L [A "ok"; table_sx t]
              | Exn e -> L [A "exn"; A (exn_name e)]) outs)])
  | _ -> failwith "input")
