(* C16 driver.
   input  = (fixed excl sfx tree)   fixed: 0|1 (constructor before/after the fix); excl: list of names; sfx: name;
            names = (codepoints...)
            tree = (files subs); files = ((name content)...); content = N | ((k v)...)
            subs = ((name tree)...)
   output = (exn E) | (ok SIDECARS DATA ISF)   ISF = is_sidecar_for matrix, sidecars x (sidecars ++ data)
            SIDECARS = ((dir name suffix ext ents chain merged)...)
            DATA     = ((dir name suffix ext ents chain mergedopt)...)
            suffix = N | (S name); chain = ((dir name)...); merged = ((k v)...); mergedopt = N | (S merged) *)
let exn_sx (e : exn) : sx = A (match e with
  | TypeError -> "TypeError" | KeyError -> "KeyError" | AttributeError -> "AttributeError"
  | ValueError -> "ValueError" | IndexError -> "IndexError" | RecursionError -> "RecursionError"
  | HedFileError -> "HedFileError" | CacheError -> "CacheError" | Unmodelled -> "Unmodelled")

let sx_content (x : sx) : (nat * nat) list option = match x with
  | A _ -> None
  | L l -> Some (List.map (fun kv -> match kv with
      | L [k; v] -> (sx_nat k, sx_nat v) | _ -> failwith "content") l)

let rec sx_tree (x : sx) : tree = match x with
  | L [L files; L subs] ->
    Node (List.map (fun f -> match f with L [n; c] -> (sx_str n, sx_content c) | _ -> failwith "file") files,
          sx_forest subs)
  | _ -> failwith "tree"
and sx_forest (l : sx list) : forest = match l with
  | [] -> FNil
  | L [n; t] :: r -> FCons (sx_str n, sx_tree t, sx_forest r)
  | _ -> failwith "forest"

let path_sx (p : n list list) : sx = L (List.map str_sx p)
let jd_sx (d : (nat * nat) list) : sx = L (List.map (fun (k, v) -> L [nat_sx k; nat_sx v]) d)
let bf_sx (b : bfile) : sx list =
  [path_sx b.b_dir; str_sx b.b_name;
   (match b.b_suffix with None -> A "N" | Some s -> L [A "S"; str_sx s]);
   str_sx b.b_ext; L (List.map (fun (k, v) -> L [str_sx k; str_sx v]) b.b_ents)]
let chain_sx (c : bfile list) : sx = L (List.map (fun s -> L [path_sx s.b_dir; str_sx s.b_name]) c)

let () = main_loop (fun x ->
  ignore (force_types O N0);
  match x with
  | L [L [A "parse"; nm]] | L [A "parse"; nm] ->
    (match parse_bids_filename (sx_str nm) with
     | Exn e -> L [A "exn"; exn_sx e]
     | Ok ((sfx, ext), ents) ->
       L [A "ok"; (match sfx with None -> A "N" | Some s -> L [A "S"; str_sx s]); str_sx ext;
          L (List.map (fun (k, v) -> L [str_sx k; str_sx v]) ents)])
  | L [fixed; excl; sfx; t] ->
    let excl = List.map sx_str (sx_list excl) in
    (match group_init (sx_bool fixed) excl (sx_str sfx) (sx_tree t) with
     | Exn e -> L [A "exn"; exn_sx e]
     | Ok g ->
       let sc = g.g_sidecars in
       L [A "ok";
          L (List.map (fun (s, d) -> L (bf_sx s @ [chain_sx (get_sidecars_from_path sc s); jd_sx d])) g.g_conts);
          L (List.map (fun (f, m) -> L (bf_sx f @ [chain_sx (get_sidecars_from_path sc f);
               (match m with None -> A "N" | Some d -> L [A "S"; jd_sx d])])) g.g_data);
          (let objs = sc @ List.map fst g.g_data in
           L (List.map (fun s -> L (List.map (fun o -> bool_sx (is_sidecar_for s o)) objs)) sc))])
  | _ -> failwith "input")
