(* C02 driver: input = (codepoints...) ; output =
   (ok tokens tree printed spec_tree balanced count_mismatch) *)
let exn_sx (e : exn) : sx = A (match e with
  | TypeError -> "TypeError" | KeyError -> "KeyError" | AttributeError -> "AttributeError"
  | ValueError -> "ValueError" | IndexError -> "IndexError" | RecursionError -> "RecursionError"
  | HedFileError -> "HedFileError" | CacheError -> "CacheError" | Unmodelled -> "Unmodelled")

let rec node_sx (x : node) : sx = match x with
  | Tag (a, b) -> L [A "T"; nat_sx a; nat_sx b]
  | Group (a, b, ch) -> L [A "G"; nat_sx a; nat_sx b; L (List.map node_sx ch)]

let () = main_loop (fun x ->
  let s = sx_str x in
  ignore (force_types O N0);
  let toks = match split_hed_string s with
    | None -> A "None"
    | Some ts -> L (List.map (fun (k, (a, b)) -> L [bool_sx k; nat_sx a; nat_sx b]) ts) in
  match hedstring_init s with
  | Exn e -> L [A "exn"; exn_sx e]
  | Ok f ->
    L [A "ok"; toks; L (List.map node_sx f); str_sx (print_forest s f);
       L (List.map node_sx (spec_parse s)); bool_sx (balanced s); bool_sx (paren_mismatch s)])
