#!/bin/sh
cd "$(dirname "$0")" || exit 2
export PYTHONHASHSEED=0 PYTHONPATH=/repo:$(pwd) PYTHONDONTWRITEBYTECODE=1 PYTHONWARNINGS=ignore
exec /venv/bin/python -m harness.setup
