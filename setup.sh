#!/bin/sh
cd "$(dirname "$0")" || exit 2
VERIF_REPO="${VERIF_REPO:-/repo}"
export VERIF_REPO PYTHONHASHSEED=0 PYTHONPATH="$VERIF_REPO:$(pwd)" PYTHONDONTWRITEBYTECODE=1 PYTHONWARNINGS=ignore
exec /venv/bin/python -m harness.setup
